package p_isaacb

import (
	"bytes"
	"context"
	"errors"
	"fmt"
	"runtime"
	"strings"
	"sync"
	"sync/atomic"
	"testing"
	"time"

	"github.com/spikeekips/mitum/base"
	"github.com/spikeekips/mitum/isaac"
	isaacdatabase "github.com/spikeekips/mitum/isaac/database"
	leveldbstorage "github.com/spikeekips/mitum/storage/leveldb"
	"github.com/spikeekips/mitum/util"
	"github.com/spikeekips/mitum/util/encoder"
	"github.com/spikeekips/mitum/util/valuehash"
	"pgregory.net/rapid"
	"verif/internal/ev"

	leveldbOpt "github.com/syndtr/goleveldb/leveldb/opt"
	leveldbStorage "github.com/syndtr/goleveldb/leveldb/storage"
	leveldbutil "github.com/syndtr/goleveldb/leveldb/util"
)

// ---- world (per process)

const (
	c38Facts    = 4  // operation fact alphabet (duplicates are the point)
	c38OpsPer   = 12 // pre-signed operations per fact (distinct operation hashes, same fact)
	c38Heights  = 6  // heights 11..16 (the pool's cleanup needs a spread of more than 3 heights to have something to remove)
	c38KeepDeep = 3  // documented memory of the pool: the cleanup removes proposals 3 or more heights below the newest stored one, and keeps the newer ones
	c38Rounds   = 2
)

type c38World struct {
	networkID base.NetworkID
	local     base.LocalNode
	db        isaacdatabase.BaseTestDatabase
	ops       [][]base.Operation // [fact][k]
	prevs     []util.Hash        // the two candidate previous blocks
}

var (
	c38WorldOnce sync.Once
	c38W         *c38World
)

func c38GetWorld() *c38World {
	c38WorldOnce.Do(func() {
		priv, err := base.NewMPrivatekeyFromSeed("c38-local-node-seed-long-enough-for-a-key")
		if err != nil {
			panic(err)
		}

		w := &c38World{
			networkID: base.NetworkID("c38-network"),
			local:     isaac.NewLocalNode(priv, base.NewStringAddress("c38local")),
			prevs:     []util.Hash{valuehash.NewSHA256([]byte("c38-prev-A")), valuehash.NewSHA256([]byte("c38-prev-B"))},
		}

		w.db.SetupSuite()

		for _, d := range []encoder.DecodeDetail{
			{Hint: isaac.DummyOperationFactHint, Instance: isaac.DummyOperationFact{}},
			{Hint: isaac.DummyOperationHint, Instance: isaac.DummyOperation{}},
		} {
			if err := w.db.Enc.Add(d); err != nil {
				panic(err)
			}
		}

		w.ops = make([][]base.Operation, c38Facts)

		for f := 0; f < c38Facts; f++ {
			fact := isaac.NewDummyOperationFact(base.Token(fmt.Sprintf("c38-fact-%d", f)), valuehash.NewSHA256([]byte(fmt.Sprintf("c38-v-%d", f))))

			for k := 0; k < c38OpsPer; k++ {
				// the same fact signed again is another operation (own operation hash) with the same fact hash
				op, err := isaac.NewDummyOperation(fact, priv, w.networkID)
				if err != nil {
					panic(err)
				}

				w.ops[f] = append(w.ops[f], op)
			}
		}

		c38W = w
	})

	return c38W
}

// ---- program

type c38Pos struct {
	H    int // 0..c38Heights-1  -> height 11+H
	R    int
	Prev int // index into world.prevs
}

func (p c38Pos) String() string { return fmt.Sprintf("h%d/r%d/prev%c", 11+p.H, p.R, 'A'+p.Prev) }

type c38Call struct {
	Empty bool // PreferEmpty instead of Make
	Pos   c38Pos
	Yield int
}

func (c c38Call) String() string {
	if c.Empty {
		return "empty(" + c.Pos.String() + ")"
	}

	return "make(" + c.Pos.String() + ")"
}

type c38Phase struct {
	Add       []int       // facts of the operations added to the pool before the calls (in this order)
	AddDuring []int       // facts of operations added by an extra goroutine while the calls run
	LastH     int         // last block map: -1 none, else height 10+LastH (LastH 0..c38Heights)
	LastPrev  int         // hash of the last manifest = prevs[LastPrev]
	Workers   [][]c38Call // one list per goroutine

	// history faults
	Clean     int  // before this phase (after the restart, if any) the pool's proposal cleanup (what the 33 min clean daemon does; hook H4) runs Clean times
	Reopen    bool // before this phase the pool is closed and opened again on the same storage, with a new maker (node restart)
	FaultFrom int  // 0: none; else the FaultFrom-th write to the storage issued while the calls of this phase run is refused ...
	FaultN    int  // ... and so are the FaultN-1 writes after it (c38FaultSticky: every later write of the phase); writes work again after the phase

	// transient read failure: right before the calls of this phase the storage is compacted (memtable -> table file; what leveldb does
	// on its own when the memtable is full), then the ReadFrom-th read of a table file issued while the calls run fails with an I/O
	// error, and so do the ReadN-1 reads after it; reads work again afterwards. 0: none (and no compaction)
	ReadFrom int
	ReadN    int
}

const c38FaultSticky = 1 << 20

var errC38Fault = errors.New("c38 injected storage write failure")

var errC38ReadFault = errors.New("c38 injected storage read failure")

func c38IsFault(err error) bool {
	return err != nil && (errors.Is(err, errC38Fault) || strings.Contains(err.Error(), errC38Fault.Error()) ||
		errors.Is(err, errC38ReadFault) || strings.Contains(err.Error(), errC38ReadFault.Error()))
}

// c38ReadFaults fails drawn reads of the table files of one goleveldb storage (no hook needed: leveldbstorage.NewStorage takes any
// goleveldb storage.Storage). Armed only while the calls of a phase run.
type c38ReadFaults struct {
	armed           atomic.Bool
	from, n         atomic.Int64
	reads, injected atomic.Int64
}

func (f *c38ReadFaults) arm(from, n int) {
	f.reads.Store(0)
	f.injected.Store(0)
	f.from.Store(int64(from))
	f.n.Store(int64(n))
	f.armed.Store(true)
}

func (f *c38ReadFaults) onRead() error {
	if !f.armed.Load() {
		return nil
	}

	if k, from := f.reads.Add(1), f.from.Load(); k >= from && k-from < f.n.Load() {
		f.injected.Add(1)

		return errC38ReadFault
	}

	return nil
}

type c38FaultyStorage struct {
	leveldbStorage.Storage
	faults *c38ReadFaults
}

func (s *c38FaultyStorage) Open(fd leveldbStorage.FileDesc) (leveldbStorage.Reader, error) {
	rd, err := s.Storage.Open(fd)
	if err != nil || fd.Type != leveldbStorage.TypeTable {
		return rd, err
	}

	return &c38FaultyReader{Reader: rd, faults: s.faults}, nil
}

type c38FaultyReader struct {
	leveldbStorage.Reader
	faults *c38ReadFaults
}

func (rd *c38FaultyReader) ReadAt(b []byte, off int64) (int, error) {
	if err := rd.faults.onRead(); err != nil {
		return 0, err
	}

	return rd.Reader.ReadAt(b, off)
}

func (rd *c38FaultyReader) Read(b []byte) (int, error) {
	if err := rd.faults.onRead(); err != nil {
		return 0, err
	}

	return rd.Reader.Read(b)
}

type c38Program struct {
	Limit   int
	Reject  []bool // per fact: the getOperations filter rejects operations of this fact (like launch's known/in-state filter)
	GateOps int    // pause inside getOperations (widens the check-then-act window for a maker without lock)
	Phases  []c38Phase
}

func c38GenPos(t *rapid.T, label string, hot []c38Pos) c38Pos {
	if len(hot) > 0 && rapid.IntRange(0, 3).Draw(t, label+"hot") != 0 {
		return rapid.SampledFrom(hot).Draw(t, label+"hotpos")
	}

	return c38Pos{
		H:    rapid.IntRange(0, c38Heights-1).Draw(t, label+"H"),
		R:    rapid.IntRange(0, c38Rounds-1).Draw(t, label+"R"),
		Prev: rapid.IntRange(0, 1).Draw(t, label+"P"),
	}
}

func c38GenProgram(t *rapid.T) c38Program {
	p := c38Program{
		Limit:   rapid.IntRange(1, 10).Draw(t, "limit"),
		GateOps: rapid.IntRange(0, 3).Draw(t, "gateOps"),
		Reject:  make([]bool, c38Facts),
	}

	if rapid.IntRange(0, 3).Draw(t, "withFilter") == 0 {
		p.Reject[rapid.IntRange(0, c38Facts-1).Draw(t, "rejectFact")] = true
	}

	used := make([]int, c38Facts)

	// a few positions that most calls go to, so that one position is asked for often and concurrently
	var hot []c38Pos

	var nphases int

	lastHs := []int{-1, 0, 0, 1, 1, 2, 3, 4, 5}

	if rapid.IntRange(0, 2).Draw(t, "ladder") != 0 {
		// the node proposes for consecutive heights (last-1, last, last+1 while the last block moves along), sometimes also for
		// unreachable higher points (Make hands out empty proposals for them; a peer may ask for any point): these are the stored
		// proposals the pool's cleanup walks over
		h0 := rapid.IntRange(0, c38Heights-3).Draw(t, "ladderH")

		for d := 0; d < 3; d++ {
			hot = append(hot, c38Pos{
				H:    h0 + d,
				R:    rapid.IntRange(0, c38Rounds-1).Draw(t, fmt.Sprintf("ladder%dR", d)),
				Prev: rapid.IntRange(0, 1).Draw(t, fmt.Sprintf("ladder%dP", d)),
			})
		}

		if h0+3 < c38Heights && rapid.IntRange(0, 2).Draw(t, "ladderTop") == 0 {
			hot = append(hot, c38Pos{
				H:    rapid.IntRange(h0+3, c38Heights-1).Draw(t, "ladderTopH"),
				R:    rapid.IntRange(0, c38Rounds-1).Draw(t, "ladderTopR"),
				Prev: rapid.IntRange(0, 1).Draw(t, "ladderTopP"),
			})
		}

		// last block around the ladder: height 10+LastH; the bottom of the ladder is height 11+h0
		lastHs = []int{-1, h0, h0 + 1, h0 + 2, h0 + 2, h0 + 3}

		nphases = rapid.IntRange(2, 4).Draw(t, "phases")
	} else {
		nphases = rapid.IntRange(1, 3).Draw(t, "phases")

		hot = []c38Pos{c38GenPos(t, "hot0", nil)}
		if rapid.Bool().Draw(t, "twoHot") {
			hot = append(hot, c38GenPos(t, "hot1", nil))
		}
	}

	genFacts := func(label string, max int) []int {
		n := rapid.IntRange(0, max).Draw(t, label+"n")

		var fs []int

		for i := 0; i < n; i++ {
			f := rapid.IntRange(0, c38Facts-1).Draw(t, fmt.Sprintf("%s%d", label, i))
			if used[f] >= c38OpsPer {
				continue
			}

			used[f]++
			fs = append(fs, f)
		}

		return fs
	}

	for i := 0; i < nphases; i++ {
		lb := fmt.Sprintf("ph%d", i)

		ph := c38Phase{
			Add:      genFacts(lb+"add", 8),
			LastH:    rapid.SampledFrom(lastHs).Draw(t, lb+"lastH"),
			LastPrev: rapid.IntRange(0, 1).Draw(t, lb+"lastPrev"),
		}

		if rapid.IntRange(0, 2).Draw(t, lb+"during") == 0 {
			ph.AddDuring = genFacts(lb+"dur", 4)
		}

		if i > 0 {
			ph.Reopen = rapid.IntRange(0, 3).Draw(t, lb+"reopen") == 0

			if rapid.Bool().Draw(t, lb+"clean") {
				ph.Clean = rapid.SampledFrom([]int{1, 1, 2, 3}).Draw(t, lb+"cleanN")
			}
		}

		if rapid.IntRange(0, 2).Draw(t, lb+"fault") == 0 {
			ph.FaultFrom = rapid.SampledFrom([]int{1, 1, 1, 2, 2, 3, 4}).Draw(t, lb+"faultFrom")
			ph.FaultN = rapid.SampledFrom([]int{1, 1, 2, 3, c38FaultSticky}).Draw(t, lb+"faultN")
		}

		// a transient read failure: mostly in later phases (then proposals handed out earlier sit in the table file)
		if rapid.IntRange(0, 11).Draw(t, lb+"readFault") >= 12-c38ReadFaultOdds(i) {
			ph.ReadFrom = rapid.IntRange(1, 16).Draw(t, lb+"readFrom")
			ph.ReadN = rapid.SampledFrom([]int{1, 1, 1, 2, 3, c38FaultSticky}).Draw(t, lb+"readN")
		}

		nw := rapid.IntRange(1, 8).Draw(t, lb+"workers")
		if nw == 1 && rapid.Bool().Draw(t, lb+"atLeast2") {
			nw = 2
		}

		for g := 0; g < nw; g++ {
			nc := rapid.IntRange(1, 3).Draw(t, fmt.Sprintf("%sw%dn", lb, g))

			var calls []c38Call

			for k := 0; k < nc; k++ {
				l := fmt.Sprintf("%sw%dc%d", lb, g, k)
				calls = append(calls, c38Call{
					Empty: rapid.IntRange(0, 4).Draw(t, l+"empty") == 0,
					Pos:   c38GenPos(t, l, hot),
					Yield: rapid.IntRange(0, 2).Draw(t, l+"y"),
				})
			}

			ph.Workers = append(ph.Workers, calls)
		}

		p.Phases = append(p.Phases, ph)
	}

	return p
}

func c38ReadFaultOdds(phase int) int { // out of 12
	if phase == 0 {
		return 1
	}

	return 4
}

func (p c38Program) hasReadFault() bool {
	for _, ph := range p.Phases {
		if ph.ReadFrom > 0 {
			return true
		}
	}

	return false
}

func (p c38Program) fingerprint() string {
	var b strings.Builder
	fmt.Fprintf(&b, "limit%d gate%d reject%v", p.Limit, p.GateOps, p.Reject)

	for i, ph := range p.Phases {
		fmt.Fprintf(&b, " | ph%d add%v during%v last(%d,%d)", i, ph.Add, ph.AddDuring, ph.LastH, ph.LastPrev)

		if ph.Reopen {
			b.WriteString(" reopen")
		}

		if ph.Clean > 0 {
			fmt.Fprintf(&b, " cleanProposals*%d", ph.Clean)
		}

		switch {
		case ph.FaultFrom < 1:
		case ph.FaultN == c38FaultSticky:
			fmt.Fprintf(&b, " refuse-writes(%d..)", ph.FaultFrom)
		default:
			fmt.Fprintf(&b, " refuse-writes(%d..%d)", ph.FaultFrom, ph.FaultFrom+ph.FaultN-1)
		}

		switch {
		case ph.ReadFrom < 1:
		case ph.ReadN == c38FaultSticky:
			fmt.Fprintf(&b, " compact+fail-table-reads(%d..)", ph.ReadFrom)
		default:
			fmt.Fprintf(&b, " compact+fail-table-reads(%d..%d)", ph.ReadFrom, ph.ReadFrom+ph.ReadN-1)
		}

		for g, calls := range ph.Workers {
			fmt.Fprintf(&b, " g%d[", g)

			for _, c := range calls {
				b.WriteString(c.String() + " ")
			}

			b.WriteString("]")
		}
	}

	return b.String()
}

// c38CleanMark is one run of the pool's proposal cleanup (1 or more passes) between two phases.
type c38CleanMark struct {
	BeforePhase int
	// TopUB is an upper bound of the newest height of a proposal in the pool at that moment: the highest height Make/PreferEmpty was
	// asked for in any earlier phase (nothing else stores proposals here); -1 when nothing was asked.
	TopUB int
	// TopLB is a lower bound of it: the highest height a proposal was handed out for (without error) in any earlier phase; such a
	// proposal is in the pool, and the cleanup never removes the newest height. -1 when nothing was handed out.
	TopLB int
}

// surelyForgets: the position is c38KeepDeep or more heights below a proposal that is in the pool for sure.
func (m c38CleanMark) surelyForgets(pos c38Pos) bool {
	return m.TopLB >= 0 && 11+pos.H <= m.TopLB-c38KeepDeep
}

// forgets: the position is at least c38KeepDeep heights below (the upper bound of) the newest stored proposal; the pool is
// allowed to forget it. With the upper bound instead of the real top fewer positions count as remembered, never more.
func (m c38CleanMark) forgets(pos c38Pos) bool {
	return m.TopUB >= 0 && 11+pos.H <= m.TopUB-c38KeepDeep
}

// c38Epoch numbers the stretches of the history in which the pool has to remember the position: a new one starts at every cleanup
// that may forget it.
func c38Epoch(marks []c38CleanMark, pos c38Pos, phase int) (n int) {
	for _, m := range marks {
		if m.BeforePhase <= phase && m.forgets(pos) {
			n++
		}
	}

	return n
}

// c38TopBefore: the highest TopUB of the cleanups up to the phase (for messages).
func c38TopBefore(marks []c38CleanMark, phase int) (top int) {
	top = -1

	for _, m := range marks {
		if m.BeforePhase <= phase && m.TopUB > top {
			top = m.TopUB
		}
	}

	return top
}

func c38CleanBetween(marks []c38CleanMark, phaseA, phaseB int) bool {
	for _, m := range marks {
		if m.BeforePhase > phaseA && m.BeforePhase <= phaseB {
			return true
		}
	}

	return false
}

type c38Result struct {
	Phase, Worker int
	Call          c38Call
	PR            base.ProposalSignFact
	Err           error
	Panic         string
}

func c38OpsDesc(pr base.ProposalSignFact) string {
	ops := pr.ProposalFact().Operations()
	ss := make([]string, len(ops))

	for i := range ops {
		ss[i] = fmt.Sprintf("(op %s fact %s)", ops[i][0].String()[:6], ops[i][1].String()[:6])
	}

	return "[" + strings.Join(ss, " ") + "]"
}

func c38Run(t ev.TB, r *ev.Rec, w *c38World, p c38Program) (classes []string, nontrivial bool) {
	// Programs with a read failure run on a goleveldb mem storage wrapped with the read-fault layer, without block cache and without
	// open-files cache (a pool larger than the caches: a lookup goes to the table file); all others on the plain mem storage.
	var st *leveldbstorage.Storage

	readFaults := &c38ReadFaults{}

	if p.hasReadFault() {
		var err error

		if st, err = leveldbstorage.NewStorage(
			&c38FaultyStorage{Storage: leveldbStorage.NewMemStorage(), faults: readFaults},
			&leveldbOpt.Options{DisableBlockCache: true, OpenFilesCacheCapacity: -1},
		); err != nil {
			t.Fatalf("harness: storage: %v", err)
		}
	} else {
		st = leveldbstorage.NewMemStorage()
	}

	defer st.Close() // TempPool.Close leaves the goleveldb goroutines of the storage running

	pool, err := isaacdatabase.NewTempPool(st, w.db.Encs, w.db.Enc, 0)
	if err != nil {
		t.Fatalf("harness: pool: %v", err)
	}
	defer func() { _ = pool.Close() }()

	// storage write faults (hook H3): armed only while the calls of a phase run, only for this case's storage
	var faultArmed atomic.Bool
	var faultFrom, faultN, faultWrites, faultInjected atomic.Int64

	leveldbstorage.VerifSetFaultController(func(s *leveldbstorage.Storage, _ string, _ int) error {
		if s != st || !faultArmed.Load() {
			return nil
		}

		if k, from := faultWrites.Add(1), faultFrom.Load(); k >= from && k-from < faultN.Load() {
			faultInjected.Add(1)

			return errC38Fault
		}

		return nil
	})
	defer leveldbstorage.VerifSetFaultController(nil)

	var lastmu sync.Mutex
	var last base.BlockMap

	var steps atomic.Int64

	getOperations := func(ctx context.Context, height base.Height) ([][2]util.Hash, error) {
		if p.GateOps > 0 {
			// bounded pause: lets the other goroutines reach the maker (they queue on its lock); schedule only
			start := steps.Load()
			deadline := time.Now().Add(time.Duration(p.GateOps) * 150 * time.Microsecond)

			for steps.Load() == start && time.Now().Before(deadline) {
				runtime.Gosched()
			}
		}

		var filter func(isaac.PoolOperationRecordMeta) (bool, error)

		anyReject := false
		for _, b := range p.Reject {
			anyReject = anyReject || b
		}

		if anyReject {
			filter = func(meta isaac.PoolOperationRecordMeta) (bool, error) {
				for f := range p.Reject {
					if p.Reject[f] && meta.Fact().Equal(w.ops[f][0].Fact().Hash()) {
						return false, nil
					}
				}

				return true, nil
			}
		}

		return pool.OperationHashes(ctx, height, uint64(p.Limit), filter)
	}

	lastBlockMap := func() (base.BlockMap, bool, error) {
		lastmu.Lock()
		defer lastmu.Unlock()

		return last, last != nil, nil
	}

	maker := isaac.NewProposalMaker(w.local, w.networkID, getOperations, pool, lastBlockMap)

	next := make([]int, c38Facts)
	addOp := func(f int) {
		op := w.ops[f][next[f]]
		next[f]++

		if _, err := pool.SetOperation(context.Background(), op); err != nil {
			t.Fatalf("harness: SetOperation: %v", err)
		}
	}

	var results []c38Result
	var resmu sync.Mutex

	poolNonEmptyDuringCalls := false

	var marks []c38CleanMark

	topAsked := -1 // highest height asked for so far

	readInjected := make([]int64, len(p.Phases)) // table reads failed while the calls of the phase ran

	for pi, ph := range p.Phases {
		if ph.Reopen {
			// node restart: same storage, new pool object (getOperations and addOp follow the variable), new maker
			if err := pool.Close(); err != nil {
				t.Fatalf("harness: pool close: %v", err)
			}

			if pool, err = isaacdatabase.NewTempPool(st, w.db.Encs, w.db.Enc, 0); err != nil {
				t.Fatalf("harness: pool reopen: %v", err)
			}

			maker = isaac.NewProposalMaker(w.local, w.networkID, getOperations, pool, lastBlockMap)
		}

		if ph.Clean > 0 {
			// the clean daemon ticks (no calls are running, no write is refused)
			for i := 0; i < ph.Clean; i++ {
				if _, err := pool.VerifCleanProposals(); err != nil {
					t.Fatalf("harness: cleanProposals: %v", err)
				}
			}

			topAnswered := -1

			for _, res := range results { // the goroutines of the earlier phases are done
				if h := 11 + res.Call.Pos.H; res.Panic == "" && res.Err == nil && res.PR != nil && h > topAnswered {
					topAnswered = h
				}
			}

			marks = append(marks, c38CleanMark{BeforePhase: pi, TopUB: topAsked, TopLB: topAnswered})
		}

		for _, calls := range ph.Workers {
			for _, c := range calls {
				if h := 11 + c.Pos.H; h > topAsked {
					topAsked = h
				}
			}
		}

		for _, f := range ph.Add {
			addOp(f)
		}

		if len(ph.Add) > 0 || len(ph.AddDuring) > 0 {
			poolNonEmptyDuringCalls = true
		}

		lastmu.Lock()
		if ph.LastH < 0 {
			last = nil
		} else {
			last = base.DummyBlockMap{M: base.NewDummyManifest(base.Height(int64(10+ph.LastH)), w.prevs[ph.LastPrev])}
		}
		lastmu.Unlock()

		// operations added during the calls are taken (deterministically) before the goroutines start
		during := make([]base.Operation, len(ph.AddDuring))
		for i, f := range ph.AddDuring {
			during[i] = w.ops[f][next[f]]
			next[f]++
		}

		start := make(chan struct{})

		var wg sync.WaitGroup

		for g := range ph.Workers {
			wg.Add(1)

			go func(g int, calls []c38Call) {
				defer wg.Done()

				<-start

				for _, c := range calls {
					for i := 0; i < c.Yield; i++ {
						runtime.Gosched()
					}

					steps.Add(1)

					res := c38Result{Phase: pi, Worker: g, Call: c}
					point := base.NewPoint(base.Height(int64(11+c.Pos.H)), base.Round(uint64(c.Pos.R)))

					func() {
						defer func() {
							if x := recover(); x != nil {
								res.Panic = fmt.Sprintf("%v", x)
							}
						}()

						if c.Empty {
							res.PR, res.Err = maker.PreferEmpty(context.Background(), point, w.prevs[c.Pos.Prev])
						} else {
							res.PR, res.Err = maker.Make(context.Background(), point, w.prevs[c.Pos.Prev])
						}
					}()

					resmu.Lock()
					results = append(results, res)
					resmu.Unlock()
				}
			}(g, ph.Workers[g])
		}

		if len(during) > 0 {
			wg.Add(1)

			go func() {
				defer wg.Done()

				<-start

				for _, op := range during {
					runtime.Gosched()

					// a refused write may hit this writer instead of the maker: the operation is then not in the pool
					if _, err := pool.SetOperation(context.Background(), op); err != nil && !c38IsFault(err) {
						panic(err)
					}
				}
			}()
		}

		if ph.ReadFrom > 0 {
			// everything written so far moves from the memtable to a table file (no calls are running, nothing is refused)
			if err := st.DB().CompactRange(leveldbutil.Range{}); err != nil {
				t.Fatalf("harness: compact: %v", err)
			}

			readFaults.arm(ph.ReadFrom, ph.ReadN)
		}

		if ph.FaultFrom > 0 {
			faultWrites.Store(0)
			faultFrom.Store(int64(ph.FaultFrom))
			faultN.Store(int64(ph.FaultN))
			faultArmed.Store(true)
		}

		close(start)
		wg.Wait()

		faultArmed.Store(false)

		if readFaults.armed.Swap(false) {
			readInjected[pi] = readFaults.injected.Load()
		}
	}

	// ---- oracle
	prog := p.fingerprint()

	for _, res := range results {
		if res.Panic != "" {
			r.Violation(t, "make-panic", "%s panicked instead of returning a proposal: %s; program %s", res.Call, res.Panic, prog)
		}
	}

	// All proposals handed out for one position are compared, over the whole history, except across a cleanup of the pool that may
	// forget the position (it is c38KeepDeep or more heights below the newest stored proposal): there the history of the position
	// is cut and each part is judged on its own.
	type c38Slot struct {
		Pos   c38Pos
		Epoch int
	}

	byPos := map[c38Slot][]c38Result{}
	var order []c38Slot

	sameProposal := func(a, b base.ProposalSignFact) bool {
		return a.Fact().Hash().Equal(b.Fact().Hash()) && bytes.Equal(a.HashBytes(), b.HashBytes())
	}

	answered := map[c38Pos][]c38Result{} // every proposal handed out for the position, whatever the cleanups
	forgottenThenAsked := false

	var forgottenThenOther [][2]c38Result // the last proposal handed out before the cut and the first, different one after it

	for _, res := range results {
		if res.Panic != "" || res.Err != nil || res.PR == nil {
			continue
		}

		slot := c38Slot{Pos: res.Call.Pos, Epoch: c38Epoch(marks, res.Call.Pos, res.Phase)}

		if _, ok := byPos[slot]; !ok {
			order = append(order, slot)

			// asked again after a cleanup that was allowed to forget the position: judged after the clauses of the kept window
			if prevs := answered[slot.Pos]; len(prevs) > 0 {
				forgottenThenAsked = true

				if prev := prevs[len(prevs)-1]; !sameProposal(prev.PR, res.PR) {
					forgottenThenOther = append(forgottenThenOther, [2]c38Result{prev, res})
				}
			}
		}

		byPos[slot] = append(byPos[slot], res)
		answered[slot.Pos] = append(answered[slot.Pos], res)
	}

	dupFactSeen := false
	answeredAcrossCleanup := false

	for _, slot := range order {
		pos := slot.Pos
		rs := byPos[slot]
		first := rs[0].PR
		point := base.NewPoint(base.Height(int64(11+pos.H)), base.Round(uint64(pos.R)))

		// one proposal per position
		for _, res := range rs[1:] {
			cleaned := c38CleanBetween(marks, rs[0].Phase, res.Phase)
			answeredAcrossCleanup = answeredAcrossCleanup || cleaned

			if sameProposal(res.PR, first) {
				continue
			}

			readFailed := false

			for pi := rs[0].Phase; pi <= res.Phase; pi++ {
				readFailed = readFailed || readInjected[pi] > 0
			}

			if readFailed {
				r.Violation(t, "two-proposals-one-position-after-read-failure", "position %s got two different proposals: %s (phase %d g%d %s) and %s (phase %d g%d %s); "+
					"a read of the storage's table file failed (transient I/O error) while the calls of a phase in between ran: a call may fail on it, but not hand out another proposal; program %s",
					pos, first.Fact().Hash(), rs[0].Phase, rs[0].Worker, rs[0].Call, res.PR.Fact().Hash(), res.Phase, res.Worker, res.Call, prog)
			}

			if cleaned {
				r.Violation(t, "two-proposals-one-position-after-cleanup", "position %s got two different proposals: %s (phase %d g%d %s) and, after the pool's proposal cleanup ran, %s (phase %d g%d %s); "+
					"no height above %d was asked for before the cleanup(s), so the position is less than %d heights below the newest proposal in the pool and not too old for the maker; program %s",
					pos, first.Fact().Hash(), rs[0].Phase, rs[0].Worker, rs[0].Call, res.PR.Fact().Hash(), res.Phase, res.Worker, res.Call,
					c38TopBefore(marks, res.Phase), c38KeepDeep, prog)
			}

			r.Violation(t, "two-proposals-one-position", "position %s got two different proposals: %s (phase %d g%d %s) and %s (phase %d g%d %s); program %s",
				pos, first.Fact().Hash(), rs[0].Phase, rs[0].Worker, rs[0].Call, res.PR.Fact().Hash(), res.Phase, res.Worker, res.Call, prog)
		}

		// it is the local node's proposal for exactly that position
		fact := first.ProposalFact()

		switch {
		case !fact.Point().Equal(point):
			r.Violation(t, "proposal-of-other-position", "asked for %s, got a proposal for point %s; program %s", pos, fact.Point(), prog)
		case fact.PreviousBlock() == nil || !fact.PreviousBlock().Equal(w.prevs[pos.Prev]):
			r.Violation(t, "proposal-of-other-position", "asked for %s, got a proposal on previous block %v; program %s", pos, fact.PreviousBlock(), prog)
		case !fact.Proposer().Equal(w.local.Address()):
			r.Violation(t, "proposal-of-other-proposer", "asked for %s, got a proposal of %s; program %s", pos, fact.Proposer(), prog)
		}

		// distinct operation hashes and distinct facts
		ops := fact.Operations()
		seenOp, seenFact := map[string]int{}, map[string]int{}

		for i := range ops {
			if j, ok := seenOp[ops[i][0].String()]; ok {
				r.Violation(t, "duplicate-operation-in-proposal", "proposal for %s lists operation %s twice (index %d and %d): %s; program %s",
					pos, ops[i][0], j, i, c38OpsDesc(first), prog)
			}

			if j, ok := seenFact[ops[i][1].String()]; ok {
				dupFactSeen = true

				r.Violation(t, "duplicate-fact-in-proposal", "proposal for %s lists fact %s twice (index %d and %d): %s; limit %d; program %s",
					pos, ops[i][1], j, i, c38OpsDesc(first), p.Limit, prog)
			}

			seenOp[ops[i][0].String()] = i
			seenFact[ops[i][1].String()] = i
		}

		if err := first.IsValid(w.networkID); err != nil && !dupFactSeen {
			r.Violation(t, "invalid-proposal", "proposal for %s is not valid: %v; program %s", pos, err, prog)
		}

		// the pool's by-point lookup agrees (unless a later cleanup was allowed to forget the position)
		switch pr, found, err := pool.ProposalByPoint(point, w.local.Address(), w.prevs[pos.Prev]); {
		case slot.Epoch != c38Epoch(marks, pos, len(p.Phases)):
		case err != nil:
			r.Violation(t, "pool-lookup-differs", "pool lookup for %s failed: %v; program %s", pos, err, prog)
		case !found && c38CleanBetween(marks, rs[0].Phase, len(p.Phases)):
			r.Violation(t, "pool-lookup-differs-after-cleanup", "pool has no proposal for %s although the maker returned %s (phase %d) and only the pool's proposal cleanup ran since; "+
				"no height above %d was asked for before the cleanup(s), so the position is less than %d heights below the newest proposal in the pool; program %s",
				pos, first.Fact().Hash(), rs[0].Phase, c38TopBefore(marks, len(p.Phases)), c38KeepDeep, prog)
		case !found:
			r.Violation(t, "pool-lookup-differs", "pool has no proposal for %s although the maker returned %s; program %s", pos, first.Fact().Hash(), prog)
		case !pr.Fact().Hash().Equal(first.Fact().Hash()):
			r.Violation(t, "pool-lookup-differs", "pool returns %s for %s, the maker returned %s; program %s", pr.Fact().Hash(), pos, first.Fact().Hash(), prog)
		}
	}

	// Outside the kept window (judged last, so that it never hides a clause of the kept window): the statement knows no window. A
	// position that the maker still accepts, but that is c38KeepDeep or more heights below a higher proposal stored in the pool, is
	// forgotten by the cleanup and then answered with another proposal.
	forgottenKnown, forgottenUnsure := false, false

	for _, pair := range forgottenThenOther {
		prev, res := pair[0], pair[1]
		pos := res.Call.Pos

		surely, newest := false, -1

		for _, m := range marks {
			if m.BeforePhase > prev.Phase && m.BeforePhase <= res.Phase && m.surelyForgets(pos) {
				surely = true

				if m.TopLB > newest {
					newest = m.TopLB
				}
			}
		}

		lastH := p.Phases[res.Phase].LastH // the maker accepts height >= last block height - 1 (or anything without a last block)

		lastDesc := "no last block"
		if lastH >= 0 {
			lastDesc = fmt.Sprintf("last block height %d", 10+lastH)
		}

		switch {
		case lastH >= 0 && 11+pos.H < 10+lastH-1: // answered although too old for the maker: not this finding
			forgottenUnsure = true
		case !surely:
			// The call(s) for the highest height(s) before the cleanup failed: whether the position was inside the kept window is not
			// known from outside; not judged.
			forgottenUnsure = true
		default:
			forgottenKnown = true

			r.Violation(t, "proposal-forgotten-by-cleanup-below-newest-stored", "position %s got two different proposals: %s (phase %d g%d %s) and, after the pool's proposal cleanup ran, %s (phase %d g%d %s); "+
				"the maker still accepts the position (%s), but a proposal for height %d, %d or more heights above it, was stored before the cleanup, so the pool forgot the position; program %s",
				pos, prev.PR.Fact().Hash(), prev.Phase, prev.Worker, prev.Call, res.PR.Fact().Hash(), res.Phase, res.Worker, res.Call,
				lastDesc, newest, c38KeepDeep, prog)
		}
	}

	// ---- classification
	concurrentSamePos, repeatedPos, anyEmpty, withOps := false, false, false, false

	for _, ph := range p.Phases {
		cnt := map[c38Pos]map[int]bool{}

		for g, calls := range ph.Workers {
			for _, c := range calls {
				if cnt[c.Pos] == nil {
					cnt[c.Pos] = map[int]bool{}
				}

				cnt[c.Pos][g] = true
				anyEmpty = anyEmpty || c.Empty
			}
		}

		for _, gs := range cnt {
			if len(gs) >= 2 {
				concurrentSamePos = true
			}
		}
	}

	for _, slot := range order {
		if len(byPos[slot]) >= 2 {
			repeatedPos = true
		}

		if len(byPos[slot][0].PR.ProposalFact().Operations()) > 0 {
			withOps = true
		}
	}

	dupFacts := false
	cntF := make([]int, c38Facts)

	for _, ph := range p.Phases {
		for _, f := range append(append([]int(nil), ph.Add...), ph.AddDuring...) {
			cntF[f]++
			if cntF[f] > 1 {
				dupFacts = true
			}
		}
	}

	nerr := 0

	// a call that failed on a refused write, and the same position answered (by another call) in the same or a later phase
	refusedThenAnswered, anyReopen := false, false

	for _, res := range results {
		if res.Err != nil {
			nerr++
		}

		if c38IsFault(res.Err) {
			for _, other := range answered[res.Call.Pos] {
				if other.Phase >= res.Phase {
					refusedThenAnswered = true
				}
			}
		}
	}

	for _, ph := range p.Phases {
		anyReopen = anyReopen || ph.Reopen
	}

	// a cleanup that had proposals to remove: something was answered c38KeepDeep or more heights below the highest height answered
	cleanupRemoves := false

	for _, m := range marks {
		top := -1

		for _, res := range results {
			if res.Phase < m.BeforePhase && res.Err == nil && res.PR != nil && 11+res.Call.Pos.H > top {
				top = 11 + res.Call.Pos.H
			}
		}

		for _, res := range results {
			if res.Phase < m.BeforePhase && res.Err == nil && res.PR != nil && 11+res.Call.Pos.H <= top-c38KeepDeep {
				cleanupRemoves = true
			}
		}
	}

	// a table read failed while a position was asked for whose proposal had been handed out in an earlier phase (and sits in the
	// table file since the compaction)
	anyReadFailed, handedOutThenReadFailed, failedOnRead := false, false, false

	for pi, ph := range p.Phases {
		if readInjected[pi] < 1 {
			continue
		}

		anyReadFailed = true

		for _, calls := range ph.Workers {
			for _, c := range calls {
				for _, other := range answered[c.Pos] {
					if other.Phase < pi && c38Epoch(marks, c.Pos, other.Phase) == c38Epoch(marks, c.Pos, pi) {
						handedOutThenReadFailed = true
					}
				}
			}
		}
	}

	for _, res := range results {
		if res.Err != nil && strings.Contains(res.Err.Error(), errC38ReadFault.Error()) {
			failedOnRead = true
		}
	}

	if anyReadFailed {
		classes = append(classes, "storage-read-failed")
	}

	if failedOnRead {
		classes = append(classes, "call-failed-on-read-failure")
	}

	if handedOutThenReadFailed {
		classes = append(classes, "handed-out-position-asked-again-under-read-failure")
	}

	if concurrentSamePos {
		classes = append(classes, "concurrent-calls-one-position")
	}

	if repeatedPos {
		classes = append(classes, "position-answered-more-than-once")
	}

	if anyEmpty {
		classes = append(classes, "has-prefer-empty")
	}

	if withOps {
		classes = append(classes, "proposal-with-operations")
	}

	if dupFacts {
		classes = append(classes, "pool-with-duplicate-facts")
	}

	if len(p.Phases) > 1 {
		classes = append(classes, "pool-or-last-block-changes-between-calls")
	}

	if nerr > 0 {
		classes = append(classes, "some-calls-refused")
	}

	if faultInjected.Load() > 0 {
		classes = append(classes, "storage-write-refused")
	}

	if refusedThenAnswered {
		classes = append(classes, "position-asked-again-after-refused-write")
	}

	if anyReopen {
		classes = append(classes, "pool-reopened-on-same-storage")
	}

	if len(marks) > 0 {
		classes = append(classes, "proposal-cleanup-ran")
	}

	if cleanupRemoves {
		classes = append(classes, "proposal-cleanup-had-something-to-remove")
	}

	if answeredAcrossCleanup {
		classes = append(classes, "position-in-kept-window-answered-before-and-after-cleanup")
	}

	if forgottenThenAsked {
		classes = append(classes, "position-below-kept-window-asked-again-after-cleanup")
	}

	if forgottenKnown {
		classes = append(classes, "proposal-forgotten-by-cleanup-below-newest-stored(known-finding)")
	}

	if forgottenUnsure {
		classes = append(classes, "position-maybe-below-kept-window-got-another-proposal-after-cleanup(not-judged)")
	}

	for _, b := range p.Reject {
		if b {
			classes = append(classes, "with-filter")

			break
		}
	}

	nontrivial = (concurrentSamePos && poolNonEmptyDuringCalls) || refusedThenAnswered || answeredAcrossCleanup || handedOutThenReadFailed

	return classes, nontrivial
}

func TestC38(t *testing.T) {
	r := ev.Start(t, "C38")
	defer r.Finish()
	r.Rule("real ProposalMaker over a real TempPool (mem leveldb), getOperations = pool.OperationHashes(limit 1..10, optional fact filter as launch uses); " +
		"1..3 phases (2..4 in ladder programs); per phase: 0..8 operations added (4 facts, so duplicate facts with distinct operation hashes), last block map none/height 10..16 with one of two hashes, " +
		"1..8 goroutines (barrier start) each calling Make/PreferEmpty 1..3 times for positions from 6 heights x 2 rounds x 2 previous blocks (1-2 hot positions; in 2/3 of the programs the hot positions are a ladder " +
		"of 3 consecutive heights around the last block, in a third of those plus one higher, unreachable height), " +
		"optionally operations added concurrently; history faults: in 1/3 of the phases the k-th (1..4) storage write issued while the calls run is refused (1, 2, 3 or all later writes of the phase; " +
		"leveldb fault hook H3), writes work again afterwards; in 1/4 of the later phases the pool is closed and re-opened on the same storage with a new maker (restart); " +
		"before half of the later phases the pool's proposal cleanup (what the clean daemon does every 33 min; hook H4 VerifCleanProposals) runs 1..3 times, then the positions are asked again with a changed operation pool; " +
		"transient read failure: in 1/3 of the later phases (1/12 of the first) the storage is compacted right before the calls (memtable -> table file) and the k-th (1..16) read of a table file issued while the calls run fails " +
		"(1, 2, 3 or all later reads of the phase; goleveldb storage wrapper under leveldbstorage.NewStorage, no block cache, no open-files cache), reads work again afterwards. " +
		"non-trivial: >=2 goroutines ask for one position in one phase and the pool is not empty, or a call failed on a refused write and the same position was answered in the same or a later phase, " +
		"or a position less than 3 heights below the highest height asked so far was answered before and after a cleanup, " +
		"or a table read failed in a phase that asks for a position whose proposal was handed out in an earlier phase; distinct by the whole program")
	r.Floor(100)
	r.Assume(
		"an error return (e.g. too old, or the storage refused the write) is not a proposal and is not judged; a panic out of Make/PreferEmpty is judged as a failure to return the proposal",
		"a proposal returned without error counts as handed out whatever happened to the storage write: all proposals handed out for one position over the whole history (refused writes, restarts) must be the same, and the pool's by-point lookup must return it",
		"a failed table read (I/O error from the storage's ReadAt) is transient and leaves the stored data unchanged; a call that returns an error because of it hands out nothing; a call that returns a proposal is judged like any other "+
			"(programs with a read failure run without leveldb block cache and open-files cache, as a pool larger than the caches would: a lookup reads the table file)",
		"a refused storage write returns an error to the pool and leaves the storage unchanged (no partial batch); refused writes that hit the concurrent SetOperation writer only keep that operation out of the pool",
		"'the same signed proposal' = same fact hash and same HashBytes; 'for that position' = the fact carries the asked point, previous block and the local proposer",
		"the pool cleanup daemon (33 min tick) is not running; its proposal step is called directly between phases (never while calls run). The pool is specified to keep the proposals of the newest stored height and the two heights below it "+
			"(cleanRemovedProposalDeep = 3, in-tree TestCleanOldProposals: top-3 removed, top kept): a position less than 3 heights below the highest height ever asked for before the cleanup must be answered with the same proposal after any number of cleanups; "+
			"a position 3 or more heights below it is beyond what the pool remembers: its history is cut at that cleanup and the parts are judged separately. Another proposal after such a cut is reported under the signature proposal-forgotten-by-cleanup-below-newest-stored "+
			"(the statement knows no window) when the maker still accepts the position and a proposal 3 or more heights above it was handed out without error (so it is stored) before the cleanup; when only failed calls asked for such heights it is not judged. "+
			"The clauses of the kept window are judged first",
		"goroutine interleavings are sampled (barrier start, bounded pause inside getOperations), not enumerated",
	)

	w := c38GetWorld()

	r.Checks(400, 12000)
	r.ShrinkTime(20 * time.Second)
	rapid.Check(t, func(rt *rapid.T) {
		p := c38GenProgram(rt)

		classes, nt := c38Run(rt, r, w, p)
		r.Case(p.fingerprint(), nt, classes...)

		if nt && r.WantSample() {
			r.Sample(map[string]any{"program": p.fingerprint(), "classes": classes})
		}
	})
}
