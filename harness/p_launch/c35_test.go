package p_launch

import (
	"fmt"
	"runtime"
	"strings"
	"sync"
	"sync/atomic"
	"testing"
	"time"

	"github.com/spikeekips/mitum/base"
	"github.com/spikeekips/mitum/launch"
	"github.com/spikeekips/mitum/util/encoder"
	jsonenc "github.com/spikeekips/mitum/util/encoder/json"
	"pgregory.net/rapid"
	"verif/internal/ev"
)

// ---- model (written from the property statement; shares nothing with launch/acl.go)

// a permission in the model is its level: 0 = no entry, 1 = prohibit ("x"), 2 = read ("o"), 3 = write ("oo"),
// k+1 = k times "o", 79 = super ("s").
const (
	c35Absent   = 0
	c35Prohibit = 1
	c35Super    = 79

	c35DefaultName = "_default" // documented name of the default user and of the default scope
)

// refPermText is the documented text form of a valid permission (1..79).
func c35RefPermText(p int) string {
	switch {
	case p == c35Prohibit:
		return "x"
	case p == c35Super:
		return "s"
	default:
		return strings.Repeat("o", p-1)
	}
}

// table: user -> scope -> level (absent cells are simply missing).
type c35Table map[string]map[string]int

// c35Decide is the four-step precedence of the statement. step = 1..4 is the step that decided, 0 = superuser,
// 5 = no entry anywhere (nothing grants access).
func c35Decide(tb c35Table, superuser, user, scope string, required int) (allow bool, assigned int, step int) {
	if user == superuser {
		return true, c35Super, 0
	}

	steps := [4][2]string{
		{user, scope},
		{user, c35DefaultName},
		{c35DefaultName, scope},
		{c35DefaultName, c35DefaultName},
	}

	for i, s := range steps {
		p, found := tb[s[0]][s[1]]
		if !found {
			continue
		}

		if p == c35Prohibit {
			return false, p, i + 1
		}

		return p >= required, p, i + 1
	}

	return false, c35Absent, 5
}

// c35YAML renders the table as the YAML text an operator would write (a user without entries cannot be written:
// the loader rejects "user: {}" as "empty user perms").
func c35YAML(tb c35Table, users, scopes []string, quote bool) string {
	var sb strings.Builder

	for _, u := range users {
		m := tb[u]
		if len(m) < 1 {
			continue
		}

		fmt.Fprintf(&sb, "%s:\n", u)

		for _, s := range scopes {
			p, found := m[s]
			if !found {
				continue
			}

			if quote {
				fmt.Fprintf(&sb, "  %s: %q\n", s, c35RefPermText(p))
			} else {
				fmt.Fprintf(&sb, "  %s: %s\n", s, c35RefPermText(p))
			}
		}
	}

	return sb.String()
}

type c35World struct {
	enc       encoder.Encoder
	u1, u2    string
	extra     []string
	superuser string
}

func c35NewWorld(t *testing.T) *c35World {
	enc := jsonenc.NewEncoder()
	if err := enc.Add(encoder.DecodeDetail{Hint: base.MPublickeyHint, Instance: &base.MPublickey{}}); err != nil {
		t.Fatalf("encoder: %v", err)
	}

	w := &c35World{enc: enc}

	keys := make([]string, 6)

	for i := range keys {
		priv, err := base.NewMPrivatekeyFromSeed(fmt.Sprintf("verif-c35-acl-user-seed-%02d-0123456789abcdef", i))
		if err != nil {
			t.Fatalf("key: %v", err)
		}

		keys[i] = priv.Publickey().String()
	}

	w.u1, w.u2, w.superuser = keys[0], keys[1], keys[2]
	w.extra = keys[3:]

	return w
}

func (w *c35World) newACL(t ev.TB) *launch.YAMLACL {
	acl, err := launch.NewACL(33, w.superuser) // 33: the size launch.PACL uses
	if err != nil {
		t.Fatalf("NewACL: %v", err)
	}

	return launch.NewYAMLACL(acl)
}

// c35Judge compares ACL.Allow with the model for one query. Returns the deciding step.
func c35Judge(
	t ev.TB, r *ev.Rec, acl *launch.YAMLACL, tb, prev c35Table, w *c35World, user, scope string, required int, yaml string, how string,
) int {
	wantAllow, wantAssigned, step := c35Decide(tb, w.superuser, user, scope, required)

	gotAssigned, gotAllow := acl.Allow(user, launch.ACLScope(scope), launch.ACLPerm(required))

	uname := c35UserName(w, user)

	// diagnosis only (the oracle is always the LATEST table): when the wrong answer is exactly what the table loaded
	// BEFORE the last update gives, the root cause is an update that was not applied, not the precedence walk.
	stale := false

	if prev != nil {
		pAllow, pAssigned, _ := c35Decide(prev, w.superuser, user, scope, required)
		stale = gotAllow == pAllow && int(gotAssigned) == pAssigned && (pAllow != wantAllow || pAssigned != wantAssigned)
	}

	if stale {
		how += " [the answer is the one of the table loaded BEFORE this update]"
	}

	if gotAllow != wantAllow {
		sig := "precedence"

		switch {
		case user == w.superuser:
			sig = "superuser-denied"
		case stale:
			sig = "stale-table-after-update"
		case wantAssigned == c35Prohibit:
			sig = "prohibit-not-final"
		case step == 5 && gotAllow:
			sig = "allowed-without-entry"
		}

		r.Violation(t, sig, "%s: Allow(user=%s, scope=%s, required=%s) = (%s, %v); the statement gives allow=%v decided at step %d by permission %q; table:\n%s",
			how, uname, scope, c35RefPermText(required), gotAssigned, gotAllow, wantAllow, step, c35Text(wantAssigned), c35Redact(w, yaml))
	}

	// the permission reported as "assigned" names the entry that decided (documented by the in-tree tests of Allow)
	if step >= 1 && step <= 4 && int(gotAssigned) != wantAssigned {
		sig := "assigned-mismatch"

		switch {
		case stale:
			sig = "stale-table-after-update"
		case wantAssigned == c35Prohibit:
			sig = "prohibit-not-final"
		}

		r.Violation(t, sig, "%s: Allow(user=%s, scope=%s, required=%s) reports assigned permission %s; the deciding entry (step %d) holds %q; table:\n%s",
			how, uname, scope, c35RefPermText(required), gotAssigned, step, c35Text(wantAssigned), c35Redact(w, yaml))
	}

	return step
}

func c35Text(p int) string {
	if p == c35Absent {
		return "<none>"
	}

	return c35RefPermText(p)
}

func c35UserName(w *c35World, user string) string {
	switch user {
	case w.u1:
		return "u1"
	case w.u2:
		return "u2"
	case w.superuser:
		return "superuser"
	}

	for i, e := range w.extra {
		if e == user {
			return fmt.Sprintf("u%d", i+3)
		}
	}

	return user
}

func c35Redact(w *c35World, yaml string) string {
	s := strings.ReplaceAll(yaml, w.u1, "u1")
	s = strings.ReplaceAll(s, w.u2, "u2")

	for i, e := range w.extra {
		s = strings.ReplaceAll(s, e, fmt.Sprintf("u%d", i+3))
	}

	return s
}

func c35Import(t ev.TB, acl *launch.YAMLACL, w *c35World, yaml string) {
	if _, err := acl.Import([]byte(yaml), w.enc); err != nil {
		t.Fatalf("harness: Import rejected a well-formed table: %v\n%s", err, yaml)
	}
}

func c35Clone(tb c35Table) c35Table {
	n := c35Table{}

	for u, m := range tb {
		if len(m) < 1 {
			continue
		}

		n[u] = map[string]int{}
		for s, p := range m {
			n[u][s] = p
		}
	}

	return n
}

// c35CellsOf lists, in the fixed order of users x scopes, the cells that are present (or absent) in the table;
// onlyLoadedUsers restricts to users that have at least one entry.
func c35CellsOf(tb c35Table, users, scopes []string, present, onlyLoadedUsers bool) [][2]string {
	var out [][2]string

	for _, u := range users {
		if onlyLoadedUsers && len(tb[u]) < 1 {
			continue
		}

		for _, s := range scopes {
			if _, found := tb[u][s]; found == present {
				out = append(out, [2]string{u, s})
			}
		}
	}

	return out
}

// c35Both renders "table in force before the update" + "latest table" for messages.
func c35Both(before, latest string) string {
	if len(before) < 1 {
		before = "  (no entries)\n"
	}

	return "# loaded before the update:\n" + before + "# latest (imported into the same ACL):\n" + latest
}

// ---- concurrent part (E): Allow from request handlers while the runtime ACL writer re-imports the table

type c35ConcQuery struct {
	user, scope string
	required    int
}

// c35ConcWant is the statement's decision for one query on one table of the cycle.
type c35ConcWant struct {
	allow    bool
	assigned int
	step     int
}

// matches: same comparison as c35Judge (allow always; assigned when an entry decided).
func (w c35ConcWant) matches(gotAllow bool, gotAssigned int) bool {
	if gotAllow != w.allow {
		return false
	}

	return w.step < 1 || w.step > 4 || gotAssigned == w.assigned
}

type c35ConcCounter struct {
	n atomic.Int64
	_ [56]byte
}

type c35ConcMismatch struct {
	reader, query int
	gotAllow      bool
	gotAssigned   int
	lo, hi        int64 // imports whose table was admissible for this call (0 = the start-up load)
	panicked      string
}

// c35ConcPool: deterministic public keys used as table users of the concurrent part.
func c35ConcPool(t *testing.T, n int) []string {
	keys := make([]string, n)

	for i := range keys {
		priv, err := base.NewMPrivatekeyFromSeed(fmt.Sprintf("verif-c35-acl-conc-user-seed-%03d-0123456789abcdef", i))
		if err != nil {
			t.Fatalf("key: %v", err)
		}

		keys[i] = priv.Publickey().String()
	}

	return keys
}

// c35Without is the table without the entries of one user (what a reader sees when that user is not loaded).
func c35Without(tb c35Table, user string) c35Table {
	n := c35Table{}

	for u, m := range tb {
		if u != user {
			n[u] = m
		}
	}

	return n
}

func TestC35(t *testing.T) {
	r := ev.Start(t, "C35")
	defer r.Finish()
	r.Rule("A: text round trip of all 79 valid permissions (MarshalText/String -> UnmarshalText, and through YAML Import -> Allow). " +
		"B (exhaustive): every table over cells (u1 | _default user) x (s1 | s2 | _default scope) with values {absent,x,o,oo,ooo,s} " +
		"(6^6 = 46656 tables, loaded as YAML text through YAMLACL.Import into a fresh ACL) x query user {u1,u2,superuser} x " +
		"query scope {s1,s2,unknown} x required {o,oo,ooo,s}, compared with the four-step precedence of the statement. " +
		"C (rapid): random tables over 5 users + _default x 4 scopes + _default with any of the 79 values, quoted/plain " +
		"perm text, 1..4 successive imports of unrelated tables into the same ACL, all queries with required drawn from 2..79. " +
		"B' (exhaustive): updates of a LOADED table: every table A over the same 6 cells with values {absent,x,oo} (729) is in force, " +
		"then every table B that differs from A in exactly one cell (entry added, dropped or changed; 8748 directed edges, both " +
		"directions, alternating text order/quoting) is imported into the same ACL, plus A re-imported with users and scopes in " +
		"another order; after each import all (user, scope, required {o,oo,ooo}) are compared with the model on the LATEST table. " +
		"D (rapid): update sequences on one live ACL over 5 users + _default x 4 scopes + _default: 1..5 successor tables derived " +
		"from the table in force by gain (users keep every entry and gain 1..3, half of them explicit prohibits), gain-default " +
		"(a user or the default user gains `_default`), change, drop, reorder (same table, permuted text), same, add-user, " +
		"remove-user, fresh; after every update all 6 users x 5 scopes x 2 required levels are compared with the model on the latest table. " +
		"E (rapid, concurrent): 2..6 reader goroutines ask Allow for drawn (user, scope, required) while one writer re-imports a cycle of " +
		"2..3 drawn tables 4..12 times into the same ACL (1..64 users + _default, mostly 20..64 so that a reload takes long; users " +
		"whose entries are the same in every table of the cycle, half of their entries explicit prohibits, the default user mostly " +
		"granting; users whose entries change or who come and go; text order drawn per table); every answer must be the statement's " +
		"decision on a table that was in force at some moment of the call (the latest one when no Import overlaps the call, the one " +
		"before or after an overlapping Import), ordered by one atomic number advanced by the writer before each Import call and after " +
		"each return; non-trivial in E: a query whose decision is the same on every table of the cycle but differs on a table in " +
		"which the asked user or the default user is missing. " +
		"non-trivial decision elsewhere: taken at step 2, 3 or 4 (a fallback was needed); B, B' cases are distinct by construction, C, D, E by (tables, queries)")
	r.Floor(1000)
	r.Assume("`required` ranges over the allow permissions (read and above): callers pass ReadAllowACLPerm/WriteAllowACLPerm/NewAllowACLPerm(n); `assigned` over all valid permissions",
		"users in a table are public keys or `_default`; the superuser never has a table entry (setUser rejects it)",
		"the assigned permission returned by Allow is compared with the deciding entry (behaviour documented by the in-tree tests)",
		"after a table is re-imported into a live ACL (start-up load, then the runtime ACL writer of launch/p_node_rw.go) the table the statement talks about is the LATEST imported one; the `updated` result of Import is not judged; an empty body is not a table (Import ignores it) and is never sent",
		"request handlers call ACL.Allow concurrently with the runtime ACL writer calling YAMLACL.Import on the same ACL (launch/p_node_rw.go); re-imports themselves are issued one at a time; while an Import is in flight the table in force before it and the one it loads are both accepted, nothing else is; verdicts use call/return order only, never clocks")

	w := c35NewWorld(t)

	// ---- A. permission text round trip, all valid values
	t.Run("text", func(t *testing.T) {
		if r.Shard != 0 {
			return // deterministic and tiny: one shard does it
		}

		seen := map[string]int{}

		for p := 1; p <= c35Super; p++ {
			perm := launch.ACLPerm(p)
			if err := perm.IsValid(nil); err != nil {
				r.Violation(t, "valid-perm-rejected", "permission level %d is documented valid but IsValid says %v", p, err)
			}

			b, err := perm.MarshalText()
			if err != nil {
				r.Violation(t, "text-roundtrip", "MarshalText(%d): %v", p, err)
			}

			if string(b) != perm.String() {
				r.Violation(t, "text-roundtrip", "MarshalText(%d)=%q differs from String()=%q", p, b, perm.String())
			}

			if q, dup := seen[string(b)]; dup {
				r.Violation(t, "text-roundtrip", "permissions %d and %d print to the same text %q", q, p, b)
			}

			seen[string(b)] = p

			var back launch.ACLPerm
			if err := back.UnmarshalText(b); err != nil {
				r.Violation(t, "text-roundtrip", "UnmarshalText(%q) (printed from %d): %v", b, p, err)
			}

			if back != perm {
				r.Violation(t, "text-roundtrip", "permission %d prints as %q which parses back as %d", p, b, uint8(back))
			}

			// documented text form, and the same through the YAML loader: the entry must come back as `assigned`
			if string(b) != c35RefPermText(p) {
				r.Violation(t, "text-form", "permission %d prints as %q, documented form is %q", p, b, c35RefPermText(p))
			}

		}

		r.CaseN(c35Super, c35Super, "part:text")
		r.Sample(map[string]any{"part": "text", "values": "1..79", "example": map[string]string{"1": "x", "2": "o", "4": "ooo", "78": "o*77", "79": "s"}})
	})

	// ---- B. exhaustive small tables
	values := []int{c35Absent, c35Prohibit, 2, 3, 4, c35Super}
	cells := [6][2]string{
		{w.u1, "s1"}, {w.u1, "s2"}, {w.u1, c35DefaultName},
		{c35DefaultName, "s1"}, {c35DefaultName, "s2"}, {c35DefaultName, c35DefaultName},
	}
	qusers := []string{w.u1, w.u2, w.superuser}
	qscopes := []string{"s1", "s2", "s9"}
	requireds := []int{2, 3, 4, c35Super}
	tusers := []string{c35DefaultName, w.u1}
	tscopes := []string{"s1", "s2", c35DefaultName}

	t.Run("exhaustive", func(t *testing.T) {
		total := 1
		for range cells {
			total *= len(values)
		}

		var stepHist [6]int64
		sampledStep := map[int]bool{}
		var evals, nontrivial int64

		for idx := 0; idx < total; idx++ {
			if !r.Mine(idx) {
				continue
			}

			tb := c35Table{}
			k := idx

			for _, c := range cells {
				v := values[k%len(values)]
				k /= len(values)

				if v == c35Absent {
					continue
				}

				if tb[c[0]] == nil {
					tb[c[0]] = map[string]int{}
				}

				tb[c[0]][c[1]] = v
			}

			yaml := c35YAML(tb, tusers, tscopes, idx%2 == 1)
			acl := w.newACL(t)
			c35Import(t, acl, w, yaml)

			for _, u := range qusers {
				for _, s := range qscopes {
					for _, req := range requireds {
						step := c35Judge(t, r, acl, tb, nil, w, u, s, req, yaml, fmt.Sprintf("table #%d", idx))
						stepHist[step]++
						evals++

						if step >= 2 && step <= 4 {
							nontrivial++

							if r.WantSample() && idx%977 == 5 && !sampledStep[step] {
								sampledStep[step] = true

								allow, assigned, _ := c35Decide(tb, w.superuser, u, s, req)
								r.Sample(map[string]any{
									"part": "exhaustive", "table": c35Redact(w, yaml), "user": c35UserName(w, u), "scope": s,
									"required": c35RefPermText(req), "step": step, "allow": allow, "assigned": c35Text(assigned),
								})
							}
						}
					}
				}
			}
		}

		r.CaseN(evals, nontrivial, "part:exhaustive")

		for i, n := range stepHist {
			name := [...]string{"step:superuser", "step:1-user-scope", "step:2-user-default", "step:3-defaultuser-scope", "step:4-defaultuser-default", "step:none"}[i]
			r.Class(name, n)
		}

		r.Extra("exhaustive_tables", total)
	})

	// ---- A'. the same 79 values through the table loader: the entry comes back as the assigned permission
	t.Run("text-in-table", func(t *testing.T) {
		if r.Shard != 0 {
			return
		}

		for p := 1; p <= c35Super; p++ {
			perm := launch.ACLPerm(p)

			acl := w.newACL(t)
			yaml := fmt.Sprintf("%s:\n  s1: %s\n", w.u1, perm.String())
			c35Import(t, acl, w, yaml)

			got, _ := acl.Allow(w.u1, "s1", launch.ReadAllowACLPerm)
			if got != perm {
				r.Violation(t, "text-roundtrip", "permission %d written as %q in a table is loaded as %d", p, perm.String(), uint8(got))
			}
		}

		r.CaseN(c35Super, c35Super, "part:text-in-table")
	})

	// ---- B'. exhaustive single-entry updates of a LOADED table: table A is in force, table B = A with one cell
	// added, dropped or changed is imported into the same ACL (and then A again: the reverse edge); every decision
	// must be the one of the latest table.
	t.Run("update-exhaustive", func(t *testing.T) {
		uvalues := []int{c35Absent, c35Prohibit, 3}
		utotal := 1

		for range cells {
			utotal *= len(uvalues)
		}

		mk := func(idx int) c35Table {
			tb := c35Table{}

			for _, c := range cells {
				v := uvalues[idx%len(uvalues)]
				idx /= len(uvalues)

				if v == c35Absent {
					continue
				}

				if tb[c[0]] == nil {
					tb[c[0]] = map[string]int{}
				}

				tb[c[0]][c[1]] = v
			}

			return tb
		}

		rusers := []string{w.u1, c35DefaultName}
		rscopes := []string{c35DefaultName, "s2", "s1"}
		ureq := []int{2, 3, 4}

		var evals, nontrivial, edges int64
		var kinds [3]int64 // gain, drop, change
		sampled := map[string]bool{}

		judgeAll := func(acl *launch.YAMLACL, tb, prev c35Table, yaml, how string) (fallback bool) {
			for _, u := range qusers {
				for _, s := range qscopes {
					for _, req := range ureq {
						step := c35Judge(t, r, acl, tb, prev, w, u, s, req, yaml, how)
						evals++

						if step >= 2 && step <= 4 {
							nontrivial++
							fallback = true
						}
					}
				}
			}

			return fallback
		}

		for a := 0; a < utotal; a++ {
			if !r.Mine(a) {
				continue
			}

			ta := mk(a)
			ya := c35YAML(ta, tusers, tscopes, a%2 == 1)
			acl := w.newACL(t)

			if len(ya) > 0 {
				c35Import(t, acl, w, ya)

				// the same table written with another order of users and scopes and the other quoting: same decisions
				yr := c35YAML(ta, rusers, rscopes, a%2 == 0)
				c35Import(t, acl, w, yr)
				judgeAll(acl, ta, nil, c35Both(ya, yr), fmt.Sprintf("table #%d re-imported with users and scopes in another order", a))
				edges++
			}

			pow := 1

			for _, c := range cells {
				av := (a / pow) % len(uvalues)

				for vi := range uvalues {
					b := a + (vi-av)*pow
					if b <= a {
						continue // the edge b -> a is walked from b
					}

					tb := mk(b) // b > 0: never empty

					var yb string
					if (a+b)%2 == 0 {
						yb = c35YAML(tb, tusers, tscopes, b%2 == 1)
					} else {
						yb = c35YAML(tb, rusers, rscopes, b%2 == 1)
					}

					kind, kname := 2, "changed"

					switch {
					case av == 0:
						kind, kname = 0, "added"
					case vi == 0:
						kind, kname = 1, "dropped"
					}

					cu := c[0]
					if cu == w.u1 {
						cu = "u1"
					}

					c35Import(t, acl, w, yb)
					fb := judgeAll(acl, tb, ta, c35Both(ya, yb), fmt.Sprintf("update of a loaded table (#%d -> #%d), entry %s/%s %s: %s -> %s",
						a, b, cu, c[1], kname, c35Text(uvalues[av]), c35Text(uvalues[vi])))
					kinds[kind]++
					edges++

					if fb && !sampled[kname] && a%53 == 7 && r.WantSample() {
						sampled[kname] = true
						r.Sample(map[string]any{"part": "update-exhaustive", "entry": cu + "/" + c[1], "edit": kname, "tables": c35Redact(w, c35Both(ya, yb))})
					}

					if len(ya) < 1 {
						// A is the table without entries; it cannot be written as text (Import ignores an empty body),
						// so the next edge starts from a fresh ACL again
						acl = w.newACL(t)

						continue
					}

					// reverse edge: back to A (dropped <-> added, changed back)
					c35Import(t, acl, w, ya)
					judgeAll(acl, ta, tb, c35Both(yb, ya), fmt.Sprintf("update of a loaded table (#%d -> #%d), entry %s/%s: %s -> %s",
						b, a, cu, c[1], c35Text(uvalues[vi]), c35Text(uvalues[av])))
					kinds[[3]int{1, 0, 2}[kind]]++
					edges++
				}

				pow *= len(uvalues)
			}
		}

		r.CaseN(evals, nontrivial, "part:update-exhaustive")
		r.Class("update:entry-added", kinds[0])
		r.Class("update:entry-dropped", kinds[1])
		r.Class("update:entry-changed", kinds[2])
		r.Extra("update_exhaustive_transitions", edges)
	})

	r.Exhaustive(true)

	// ---- C. random wider tables, repeated imports into one ACL
	allUsers := append([]string{c35DefaultName, w.u1, w.u2}, w.extra...)
	allScopes := []string{"s1", "s2", "s3", "s4", c35DefaultName}
	permGen := rapid.OneOf(
		rapid.SampledFrom([]int{c35Prohibit, 2, 3, 4, c35Super}),
		rapid.IntRange(1, c35Super),
		rapid.SampledFrom([]int{77, 78, 5}),
	)
	reqGen := rapid.OneOf(rapid.SampledFrom([]int{2, 3, 4, c35Super}), rapid.IntRange(2, c35Super))

	r.Checks(2500, 60000)
	rapid.Check(t, func(rt *rapid.T) {
		acl := w.newACL(rt)
		nImports := rapid.IntRange(1, 4).Draw(rt, "imports")

		var fp strings.Builder

		nontrivial := false
		classes := map[string]bool{"part:random": true}

		var inForce c35Table // table loaded by the previous import (nil: none yet)

		for im := 0; im < nImports; im++ {
			tb := c35Table{}
			for _, u := range allUsers {
				if rapid.IntRange(0, 3).Draw(rt, "userKind") == 0 {
					continue // not in the table
				}

				for _, s := range allScopes {
					if rapid.IntRange(0, 2).Draw(rt, "cell") == 0 {
						continue
					}

					if tb[u] == nil {
						tb[u] = map[string]int{}
					}

					tb[u][s] = permGen.Draw(rt, "perm")
				}
			}

			yaml := c35YAML(tb, allUsers, allScopes, rapid.Bool().Draw(rt, "quote"))
			if len(yaml) < 1 {
				// Import ignores an empty body: the previous table stays in force; nothing new to judge
				continue
			}

			c35Import(rt, acl, w, yaml)
			fmt.Fprintf(&fp, "%s|", c35Redact(w, yaml))

			nq := rapid.IntRange(4, 16).Draw(rt, "queries")
			for q := 0; q < nq; q++ {
				u := rapid.SampledFrom(append([]string{w.superuser}, allUsers[1:]...)).Draw(rt, "quser")
				s := rapid.SampledFrom([]string{"s1", "s2", "s3", "s4", "s9"}).Draw(rt, "qscope")
				req := reqGen.Draw(rt, "required")

				step := c35Judge(rt, r, acl, tb, inForce, w, u, s, req, yaml, fmt.Sprintf("import %d of %d into one ACL", im+1, nImports))
				fmt.Fprintf(&fp, "%s,%s,%d;", c35UserName(w, u), s, req)

				if step >= 2 && step <= 4 {
					nontrivial = true
					classes[fmt.Sprintf("rstep:%d", step)] = true
				}

				if im > 0 {
					classes["reimport"] = true
				}
			}

			inForce = tb
		}

		cl := make([]string, 0, len(classes))
		for _, c := range []string{"part:random", "rstep:2", "rstep:3", "rstep:4", "reimport"} {
			if classes[c] {
				cl = append(cl, c)
			}
		}

		r.Case(fp.String(), nontrivial, cl...)

		if nontrivial && nImports > 1 && r.WantSample() {
			r.Sample(map[string]any{"part": "random", "imports_and_queries": fp.String()})
		}
	})

	// ---- D. update sequences on one live ACL: a table is loaded, then successor tables DERIVED from the one in
	// force are imported (entries only gained / changed / dropped / text reordered / user added or removed / unrelated
	// table); after every update every (user, scope) is asked and compared with the model on the LATEST table.
	// What Import reports as "updated" is not judged; the decisions are.
	upUsers := append([]string{w.superuser}, allUsers[1:]...)
	upScopes := []string{"s1", "s2", "s3", "s4", "s9"}
	opNames := []string{"gain", "gain", "gain-default", "change", "drop", "reorder", "same", "add-user", "remove-user", "fresh"}

	drawTable := func(rt *rapid.T) c35Table {
		tb := c35Table{}

		for _, u := range allUsers {
			if rapid.IntRange(0, 3).Draw(rt, "userKind") == 0 {
				continue
			}

			for _, s := range allScopes {
				if rapid.IntRange(0, 2).Draw(rt, "cell") != 0 {
					continue // sparse: leaves room to gain entries
				}

				if tb[u] == nil {
					tb[u] = map[string]int{}
				}

				tb[u][s] = permGen.Draw(rt, "perm")
			}
		}

		if len(tb) < 1 {
			tb[c35DefaultName] = map[string]int{rapid.SampledFrom(allScopes).Draw(rt, "scope"): permGen.Draw(rt, "perm")}
		}

		return tb
	}

	// the permission for a gained entry: an explicit prohibit half of the time (the entry the statement makes final)
	gainGen := rapid.OneOf(rapid.Just(c35Prohibit), permGen)

	r.Checks(700, 30000)
	rapid.Check(t, func(rt *rapid.T) {
		acl := w.newACL(rt)

		cur := drawTable(rt)
		curYAML := c35YAML(cur, allUsers, allScopes, rapid.Bool().Draw(rt, "quote"))
		c35Import(rt, acl, w, curYAML)

		var fp strings.Builder

		fmt.Fprintf(&fp, "%s|", c35Redact(w, curYAML))

		nontrivial := false
		classes := map[string]bool{}

		nUpdates := rapid.IntRange(1, 5).Draw(rt, "updates")
		for up := 0; up < nUpdates; up++ {
			op := rapid.SampledFrom(opNames).Draw(rt, "op")
			next := c35Clone(cur)

			// operations that are not applicable to the table in force degrade to "change" (always applicable: a
			// loaded table has at least one entry)
			switch op {
			case "gain", "gain-default":
				cand := c35CellsOf(next, allUsers, allScopes, false, true)

				if op == "gain-default" {
					var d [][2]string

					for _, c := range cand {
						if c[1] == c35DefaultName {
							d = append(d, c)
						}
					}

					cand = d
				}

				if len(cand) < 1 {
					op = "change"

					break
				}

				n := rapid.IntRange(1, 3).Draw(rt, "gained")
				for i := 0; i < n; i++ {
					c := rapid.SampledFrom(cand).Draw(rt, "gainCell")
					next[c[0]][c[1]] = gainGen.Draw(rt, "gainPerm") // every previous entry stays as it is
				}
			case "drop":
				if cand := c35CellsOf(next, allUsers, allScopes, true, true); len(cand) > 1 {
					c := rapid.SampledFrom(cand).Draw(rt, "dropCell")

					delete(next[c[0]], c[1])

					if len(next[c[0]]) < 1 {
						delete(next, c[0]) // a user without entries cannot be written: the user leaves the table
					}
				} else {
					op = "change"
				}
			case "add-user":
				var absent []string

				for _, u := range allUsers {
					if len(next[u]) < 1 {
						absent = append(absent, u)
					}
				}

				if len(absent) < 1 {
					op = "change"

					break
				}

				u := rapid.SampledFrom(absent).Draw(rt, "newUser")
				next[u] = map[string]int{}

				n := rapid.IntRange(1, 3).Draw(rt, "newEntries")
				for i := 0; i < n; i++ {
					next[u][rapid.SampledFrom(allScopes).Draw(rt, "newScope")] = gainGen.Draw(rt, "newPerm")
				}
			case "remove-user":
				var loaded []string

				for _, u := range allUsers {
					if len(next[u]) > 0 {
						loaded = append(loaded, u)
					}
				}

				if len(loaded) < 2 {
					op = "change"

					break
				}

				delete(next, rapid.SampledFrom(loaded).Draw(rt, "goneUser"))
			case "fresh":
				next = drawTable(rt)
			}

			if op == "change" {
				cand := c35CellsOf(next, allUsers, allScopes, true, true)
				c := rapid.SampledFrom(cand).Draw(rt, "changeCell")
				old := next[c[0]][c[1]]

				np := rapid.OneOf(rapid.Just(c35Prohibit), permGen).Filter(func(p int) bool { return p != old }).Draw(rt, "changePerm")
				next[c[0]][c[1]] = np
			}

			// the text: users and scopes in a drawn order ("reorder" and "same" differ only here)
			users, scopes := allUsers, allScopes
			if op != "same" && (op == "reorder" || rapid.Bool().Draw(rt, "permute")) {
				users = rapid.Permutation(allUsers).Draw(rt, "userOrder")
				scopes = rapid.Permutation(allScopes).Draw(rt, "scopeOrder")
			}

			nextYAML := c35YAML(next, users, scopes, rapid.Bool().Draw(rt, "quote"))
			c35Import(rt, acl, w, nextYAML)

			fmt.Fprintf(&fp, "%s>%s|", op, c35Redact(w, nextYAML))
			classes["op:"+op] = true

			reqs := [2]int{2, reqGen.Draw(rt, "required")}
			both := c35Both(curYAML, nextYAML)
			how := fmt.Sprintf("update %d of %d on one ACL (%s)", up+1, nUpdates, op)

			for _, u := range upUsers {
				for _, s := range upScopes {
					for _, req := range reqs {
						step := c35Judge(rt, r, acl, next, cur, w, u, s, req, both, how)

						if step >= 2 && step <= 4 {
							nontrivial = true
							classes[fmt.Sprintf("ustep:%d", step)] = true
						}
					}
				}
			}

			fmt.Fprintf(&fp, "%d;", reqs[1])

			cur, curYAML = next, nextYAML
		}

		cl := []string{"part:update"}

		for _, c := range []string{"op:gain", "op:gain-default", "op:change", "op:drop", "op:reorder", "op:same", "op:add-user", "op:remove-user", "op:fresh", "ustep:2", "ustep:3", "ustep:4"} {
			if classes[c] {
				cl = append(cl, c)
			}
		}

		r.Case(fp.String(), nontrivial, cl...)

		if nontrivial && classes["op:gain"] && r.WantSample() {
			r.Sample(map[string]any{"part": "update", "tables_ops_required": fp.String()})
		}
	})

	// ---- E. concurrent: request handlers ask Allow while the runtime ACL writer (launch/p_node_rw.go: writeACL ->
	// YAMLACL.Import) re-imports the table. 2..6 reader goroutines ask drawn (user, scope, required); this goroutine
	// re-imports a cycle of 2..3 drawn tables. Oracle (linearizability of the statement's decision over the table in
	// force): `epoch` is one atomic number advanced only by the writer, to 2i-1 right BEFORE the call of import i and to
	// 2i right AFTER its return; a reader loads it before the call of Allow (e1) and after its return (e2). Import i
	// had returned before Allow was called iff 2i <= e1, and was called before Allow returned only if 2i-1 <= e2. So
	// the tables that can have been in force at some moment of the Allow call are those of imports e1/2 .. (e2+1)/2:
	// exactly the latest one when no Import overlaps, the one before or after while one overlaps. An answer that is
	// the statement's decision on none of them was taken from something that never was the table. No clocks involved.
	pool := c35ConcPool(t, 64)
	concRedact := func(yaml string) string {
		for i, u := range pool {
			yaml = strings.ReplaceAll(yaml, u, fmt.Sprintf("p%02d", i))
		}

		return c35Redact(w, yaml)
	}
	concName := func(u string) string {
		for i, p := range pool {
			if p == u {
				return fmt.Sprintf("p%02d", i)
			}
		}

		return c35UserName(w, u)
	}

	// entries of a table user: an explicit prohibit half of the time; of the default user: mostly plain grants
	userPermGen := rapid.OneOf(rapid.Just(c35Prohibit), permGen)
	defaultPermGen := rapid.OneOf(rapid.SampledFrom([]int{2, 3, 4}), permGen)
	concReqGen := rapid.OneOf(rapid.Just(2), reqGen)

	drawEntries := func(rt *rapid.T, gen *rapid.Generator[int]) map[string]int {
		m := map[string]int{}

		for _, s := range allScopes {
			if rapid.IntRange(0, 2).Draw(rt, "cell") == 0 {
				m[s] = gen.Draw(rt, "perm")
			}
		}

		if len(m) < 1 {
			m[rapid.SampledFrom(allScopes).Draw(rt, "scope")] = gen.Draw(rt, "perm")
		}

		return m
	}

	var concCalls, concOverlapped, concQuiescent atomic.Int64

	r.ShrinkTime(8 * time.Second) // a concurrent failure does not replay deterministically: do not spend long on shrinking
	r.Checks(150, 2400)
	rapid.Check(t, func(rt *rapid.T) {
		// -- the tables of the cycle
		nListed := rapid.OneOf(rapid.IntRange(1, 8), rapid.IntRange(20, len(pool)), rapid.IntRange(40, len(pool))).Draw(rt, "listedUsers") // many users: a reload takes long
		listed := pool[:nListed]
		nTables := rapid.IntRange(2, 3).Draw(rt, "tables")
		defaultKind := rapid.SampledFrom([]string{"stable", "stable", "stable", "churn", "absent"}).Draw(rt, "defaultUser")

		// users[0] always changes (distinct `s4` entry in every table of the cycle), so every import is a real reload
		togglePerms := rapid.Permutation([]int{c35Prohibit, 2, 3, 4}).Draw(rt, "toggle")

		tables := make([]c35Table, nTables)
		for k := range tables {
			tables[k] = c35Table{}
		}

		var stable []string // listed users whose entries are the same in every table of the cycle

		for i, u := range listed {
			switch {
			case i == 0:
				for k := range tables {
					tables[k][u] = drawEntries(rt, userPermGen)
					tables[k][u]["s4"] = togglePerms[k]
				}
			case rapid.IntRange(0, 2).Draw(rt, "userKind") != 0: // stable
				m := drawEntries(rt, userPermGen)
				for k := range tables {
					tables[k][u] = m
				}

				stable = append(stable, u)
			default: // churn: other entries in every table, sometimes not in the table at all
				for k := range tables {
					if rapid.IntRange(0, 3).Draw(rt, "churnAbsent") != 0 {
						tables[k][u] = drawEntries(rt, userPermGen)
					}
				}
			}
		}

		switch defaultKind {
		case "stable":
			m := drawEntries(rt, defaultPermGen)
			for k := range tables {
				tables[k][c35DefaultName] = m
			}
		case "churn":
			for k := range tables {
				if rapid.IntRange(0, 3).Draw(rt, "churnAbsent") != 0 {
					tables[k][c35DefaultName] = drawEntries(rt, defaultPermGen)
				}
			}
		}

		yamls := make([]string, nTables)

		for k := range tables {
			order := rapid.Permutation(append([]string{c35DefaultName}, listed...)).Draw(rt, "userOrder")
			if rapid.Bool().Draw(rt, "defaultFirst") { // the usual way to write the file
				first := []string{c35DefaultName}

				for _, u := range order {
					if u != c35DefaultName {
						first = append(first, u)
					}
				}

				order = first
			}

			yamls[k] = c35YAML(tables[k], order, allScopes, rapid.Bool().Draw(rt, "quote"))
		}

		// -- readers and their queries
		nReaders := rapid.IntRange(2, 6).Draw(rt, "readers")
		nImports := rapid.IntRange(4, 12).Draw(rt, "imports")

		queries := make([][]c35ConcQuery, nReaders)
		want := make([][][]c35ConcWant, nReaders)

		var fp strings.Builder

		for k := range yamls {
			fmt.Fprintf(&fp, "%s|", concRedact(yamls[k]))
		}

		fmt.Fprintf(&fp, "readers=%d,imports=%d|", nReaders, nImports)

		sensitive, prohibitOverAllow, fallback := false, false, false

		for ri := range queries {
			nq := rapid.IntRange(3, 8).Draw(rt, "queries")
			queries[ri] = make([]c35ConcQuery, nq)
			want[ri] = make([][]c35ConcWant, nq)

			for qi := range queries[ri] {
				var u string

				switch kind := rapid.IntRange(0, 7).Draw(rt, "quserKind"); {
				case kind < 4 && len(stable) > 0:
					u = rapid.SampledFrom(stable).Draw(rt, "quser")
				case kind < 6:
					u = rapid.SampledFrom(listed).Draw(rt, "quser")
				case kind == 6:
					u = w.u2 // never in a table
				default:
					u = w.superuser
				}

				q := c35ConcQuery{
					user:     u,
					scope:    rapid.SampledFrom([]string{"s1", "s2", "s3", "s4", "s9"}).Draw(rt, "qscope"),
					required: concReqGen.Draw(rt, "required"),
				}
				queries[ri][qi] = q
				fmt.Fprintf(&fp, "%d:%s,%s,%d;", ri, concName(u), q.scope, q.required)

				want[ri][qi] = make([]c35ConcWant, nTables)
				same, differsHalf, ownProhibit, othersAllow := true, false, true, true

				for k := range tables {
					allow, assigned, step := c35Decide(tables[k], w.superuser, q.user, q.scope, q.required)
					want[ri][qi][k] = c35ConcWant{allow: allow, assigned: assigned, step: step}

					if step >= 2 && step <= 4 {
						fallback = true
					}

					if k > 0 && want[ri][qi][k] != want[ri][qi][0] {
						same = false
					}

					// what the statement gives on a table in which this user (or the default user) is missing
					for _, gone := range []string{q.user, c35DefaultName} {
						hAllow, hAssigned, hStep := c35Decide(c35Without(tables[k], gone), w.superuser, q.user, q.scope, q.required)
						if !want[ri][qi][k].matches(hAllow, hAssigned) && (hStep != 5 || want[ri][qi][k].allow) {
							differsHalf = true // the answer read off such a partial table is not the answer of the table
						}

						if gone == q.user && !hAllow {
							othersAllow = false
						}
					}

					if step < 1 || step > 2 || assigned != c35Prohibit {
						ownProhibit = false
					}
				}

				if same && differsHalf {
					sensitive = true // the answer is the same on every table of the cycle, and another one on a part of a table
				}

				if ownProhibit && othersAllow {
					prohibitOverAllow = true
				}
			}
		}

		// -- run
		acl := w.newACL(rt)
		c35Import(rt, acl, w, yamls[0]) // start-up load = import 0

		var epoch atomic.Int64
		var done, stop atomic.Bool
		var started, wg sync.WaitGroup

		mismatches := make([]*c35ConcMismatch, nReaders)
		progress := make([]c35ConcCounter, nReaders) // calls made so far, one cache line per reader
		var exited atomic.Int64

		progressSum := func() (n int64) {
			for i := range progress {
				n += progress[i].n.Load()
			}

			return n
		}
		const maxCalls = 4_000_000 // per reader; only a bound, the readers normally run until the last import returned

		for ri := 0; ri < nReaders; ri++ {
			started.Add(1)
			wg.Add(1)

			go func(ri int) {
				defer wg.Done()

				var calls, overlapped, quiescent int64
				signalled := false
				cur := 0

				defer func() {
					if x := recover(); x != nil {
						mismatches[ri] = &c35ConcMismatch{reader: ri, query: cur, panicked: fmt.Sprint(x)}
						stop.Store(true)
					}

					if !signalled {
						started.Done()
					}

					exited.Add(1)
					concCalls.Add(calls)
					concOverlapped.Add(overlapped)
					concQuiescent.Add(quiescent)
				}()

				one := func(qi int) bool {
					cur = qi
					q := queries[ri][qi]

					e1 := epoch.Load()
					gotAssigned, gotAllow := acl.Allow(q.user, launch.ACLScope(q.scope), launch.ACLPerm(q.required))
					e2 := epoch.Load()

					lo, hi := e1/2, (e2+1)/2
					calls++
					progress[ri].n.Store(calls)

					if lo != hi {
						overlapped++
					} else if lo > 0 {
						quiescent++
					}

					for k := lo; k <= hi && k < lo+int64(nTables); k++ {
						if want[ri][qi][int(k)%nTables].matches(gotAllow, int(gotAssigned)) {
							return true
						}
					}

					mismatches[ri] = &c35ConcMismatch{reader: ri, query: qi, gotAllow: gotAllow, gotAssigned: int(gotAssigned), lo: lo, hi: hi}
					stop.Store(true)

					return false
				}

				for i := 0; i < maxCalls && !done.Load() && !stop.Load(); i++ {
					if !one(i % len(queries[ri])) {
						return
					}

					if !signalled {
						signalled = true
						started.Done()
					}
				}

				// the last import has returned: every query once more, now exactly the latest table counts
				for qi := range queries[ri] {
					if stop.Load() || !one(qi) {
						return
					}
				}
			}(ri)
		}

		started.Wait() // every reader is asking before the first re-import goes out

		var importErr error

		for i := 1; i <= nImports && !stop.Load(); i++ {
			epoch.Store(int64(2*i - 1))
			_, err := acl.Import([]byte(yamls[i%nTables]), w.enc)
			epoch.Store(int64(2 * i))

			if err != nil {
				importErr = err
				stop.Store(true)
			}

			// let the readers ask a few times with no Import in flight (exactly the latest table counts then) before
			// the next one goes out; paced by their call counts, never by a clock
			for from, spins := progressSum(), 0; spins < 1_000_000 && progressSum() < from+int64(4*nReaders) && exited.Load() < 1 && !stop.Load(); spins++ {
				runtime.Gosched()
			}
		}

		done.Store(true)
		wg.Wait()

		if importErr != nil {
			rt.Fatalf("harness: Import rejected a well-formed table: %v", importErr)
		}

		for _, mm := range mismatches {
			if mm == nil {
				continue
			}

			q := queries[mm.reader][mm.query]

			var all strings.Builder
			for k := range yamls {
				fmt.Fprintf(&all, "# table %d of the cycle:\n%s", k, concRedact(yamls[k]))
			}

			if len(mm.panicked) > 0 {
				r.Violation(rt, "panic-in-allow-during-import", "concurrent: Allow(user=%s, scope=%s, required=%s) panicked while the table was re-imported by another goroutine: %s; tables:\n%s",
					concName(q.user), q.scope, c35RefPermText(q.required), mm.panicked, all.String())

				continue
			}

			var adm strings.Builder

			for k := mm.lo; k <= mm.hi && k < mm.lo+int64(nTables); k++ {
				wk := want[mm.reader][mm.query][int(k)%nTables]
				fmt.Fprintf(&adm, " table %d -> (%s, %v) at step %d;", int(k)%nTables, c35Text(wk.assigned), wk.allow, wk.step)
			}

			// diagnosis: the answer of a table of the cycle that was not in force (replaced by an Import that had
			// returned, or not sent yet), or of no table at all (a partly loaded one)
			sig, what := "allow-from-half-loaded-table", "it is the decision on none of the imported tables either: the answer was taken from a partly loaded table"

			for k := range tables {
				if want[mm.reader][mm.query][k].matches(mm.gotAllow, mm.gotAssigned) {
					sig, what = "stale-table-after-update", fmt.Sprintf("it is the decision on table %d, which was not in force during the call", k)
				}
			}

			overlap := "no Import overlapped the call, so exactly the latest table counts"
			if mm.lo != mm.hi {
				overlap = "an Import overlapped the call, so the table in force before it and the one it loads both count"
			}

			r.Violation(rt, sig, "concurrent (%d readers, 1 writer re-importing %d tables in turn): Allow(user=%s, scope=%s, required=%s) = (%s, %v); %s; the statement gives:%s %s; tables:\n%s",
				nReaders, nTables, concName(q.user), q.scope, c35RefPermText(q.required), launch.ACLPerm(mm.gotAssigned), mm.gotAllow, overlap, adm.String(), what, all.String())
		}

		cl := []string{"part:concurrent"}

		if nListed >= 20 {
			cl = append(cl, "conc:many-users")
		}

		if sensitive {
			cl = append(cl, "conc:query-sensitive-to-partial-table")
		}

		if prohibitOverAllow {
			cl = append(cl, "conc:own-prohibit-over-default-grant")
		}

		if fallback {
			cl = append(cl, "conc:fallback-step")
		}

		r.Case(fp.String(), sensitive, cl...)

		if sensitive && r.WantSample() {
			r.Sample(map[string]any{"part": "concurrent", "tables_readers_queries": fp.String()})
		}
	})

	r.Extra("concurrent_allow_calls", concCalls.Load())
	r.Extra("concurrent_allow_calls_overlapping_an_import", concOverlapped.Load())
	r.Extra("concurrent_allow_calls_between_imports", concQuiescent.Load())
}
