package p_launch

import (
	"context"
	"encoding/json"
	"errors"
	"fmt"
	"net"
	"os"
	"sort"
	"strconv"
	"strings"
	"testing"
	"time"

	"github.com/spikeekips/mitum/base"
	isaacnetwork "github.com/spikeekips/mitum/isaac/network"
	"github.com/spikeekips/mitum/launch"
	"github.com/spikeekips/mitum/util"
	"github.com/spikeekips/mitum/util/valuehash"
	"pgregory.net/rapid"
	"verif/internal/ev"
)

// ---- model of rules, rule maps and the rule configuration (written from the statement and the config format)

type c36Rule struct {
	Kind  string // "nolimit" | "zero" | "bd" (burst per duration)
	Burst int
	Ms    int
}

func (r c36Rule) text() string {
	switch r.Kind {
	case "nolimit":
		return "nolimit"
	case "zero":
		return "0"
	default:
		return fmt.Sprintf("%d/%dms", r.Burst, r.Ms)
	}
}

func (r c36Rule) rate() float64 { // tokens per second
	return float64(r.Burst) / (float64(r.Ms) / 1000)
}

func (r c36Rule) real() launch.RateLimiterRule {
	switch r.Kind {
	case "nolimit":
		return launch.NoLimitRateLimiterRule()
	case "zero":
		return launch.LimitRateLimiterRule()
	default:
		return launch.NewRateLimiterRule(time.Duration(r.Ms)*time.Millisecond, r.Burst)
	}
}

// the documented built-in default: 33 requests per 3 seconds
var c36BuiltinDefault = c36Rule{Kind: "bd", Burst: 33, Ms: 3000}

type c36Map struct {
	D *c36Rule
	M map[string]c36Rule
}

func (m c36Map) rule(handler string) (c36Rule, bool) {
	if r, found := m.M[handler]; found {
		return r, true
	}

	if m.D != nil {
		return *m.D, true
	}

	return c36Rule{}, false
}

func (m c36Map) empty() bool { return m.D == nil && len(m.M) < 1 }

func (m c36Map) real() launch.RateLimiterRuleMap {
	var d *launch.RateLimiterRule

	if m.D != nil {
		i := m.D.real()
		d = &i
	}

	var mm map[string]launch.RateLimiterRule

	if len(m.M) > 0 {
		mm = map[string]launch.RateLimiterRule{}
		for k, v := range m.M {
			mm[k] = v.real()
		}
	}

	return launch.NewRateLimiterRuleMap(d, mm)
}

func (m c36Map) obj() map[string]string {
	o := map[string]string{}
	for k, v := range m.M {
		o[k] = v.text()
	}

	if m.D != nil {
		o["default"] = m.D.text()
	}

	return o
}

func (m c36Map) String() string {
	b, _ := json.Marshal(m.obj()) // encoding/json sorts map keys

	return string(b)
}

type c36Net struct {
	CIDR string
	Map  c36Map
}

type c36Config struct {
	HasClientID bool
	ClientID    map[string]c36Map
	HasNets     bool
	Nets        []c36Net
	HasNodes    bool
	Nodes       map[string]c36Map // by node address string
	Suffrage    c36Map
	Default     c36Map
	ViaJSON     map[string]bool // kind -> the current set was decoded from JSON (the config-file path)
}

func (c *c36Config) String() string {
	var sb strings.Builder

	if c.HasClientID {
		ks := make([]string, 0, len(c.ClientID))
		for k := range c.ClientID {
			ks = append(ks, k)
		}

		sort.Strings(ks)

		sb.WriteString("clientid{")
		for _, k := range ks {
			fmt.Fprintf(&sb, "%s:%s ", k, c.ClientID[k])
		}

		sb.WriteString("} ")
	}

	if c.HasNets {
		sb.WriteString("nets[")
		for _, n := range c.Nets {
			fmt.Fprintf(&sb, "%s:%s ", n.CIDR, n.Map)
		}

		sb.WriteString("] ")
	}

	if c.HasNodes {
		ks := make([]string, 0, len(c.Nodes))
		for k := range c.Nodes {
			ks = append(ks, k)
		}

		sort.Strings(ks)

		sb.WriteString("nodes{")
		for _, k := range ks {
			fmt.Fprintf(&sb, "%s:%s ", k, c.Nodes[k])
		}

		sb.WriteString("} ")
	}

	fmt.Fprintf(&sb, "suffrage:%s default:%s", c.Suffrage, c.Default)

	return sb.String()
}

type c36Match struct {
	Typ  string // result vocabulary of RateLimiterResult.RulesetType
	Desc string // client id / CIDR that matched
	Rule c36Rule
}

func (m c36Match) String() string { return fmt.Sprintf("%s(%s)%s", m.Typ, m.Desc, m.Rule.text()) }

type c36Membership struct {
	members map[string]bool
	hash    util.Hash
	err     bool
	n       int
}

// c36Select is the precedence of the statement. strictNets selects the reading of "the first matching network
// rule": false = the first configured net that contains the address AND has a rule for the handler;
// true = only the first configured net that contains the address is consulted. kinds = how many of
// {clientid, net, node, suffrage, defaultmap} match the request.
func c36Select(
	c *c36Config, ip net.IP, handler, clientID, node string, ms *c36Membership, strictNets bool,
) (m c36Match, kinds int) {
	var found []c36Match

	if c.HasClientID && clientID != "" {
		if rm, ok := c.ClientID[clientID]; ok {
			if r, ok := rm.rule(handler); ok {
				found = append(found, c36Match{"clientid", clientID, r})
			}
		}
	}

	if c.HasNets {
		for _, n := range c.Nets {
			_, ipnet, err := net.ParseCIDR(n.CIDR)
			if err != nil || !ipnet.Contains(ip) {
				continue
			}

			if r, ok := n.Map.rule(handler); ok {
				found = append(found, c36Match{"net", ipnet.String(), r})

				break
			}

			if strictNets {
				break
			}
		}
	}

	if node != "" {
		if c.HasNodes {
			if rm, ok := c.Nodes[node]; ok {
				if r, ok := rm.rule(handler); ok {
					found = append(found, c36Match{"node", "", r})
				}
			}
		}

		if !c.Suffrage.empty() && !ms.err && ms.members[node] {
			if r, ok := c.Suffrage.rule(handler); ok {
				found = append(found, c36Match{"suffrage", "", r})
			}
		}
	}

	if r, ok := c.Default.rule(handler); ok {
		found = append(found, c36Match{"defaultmap", "", r})
	}

	kinds = len(found)
	found = append(found, c36Match{"default", "", c36BuiltinDefault})

	return found[0], kinds
}

// c36Observed says whether the limiter reported in a RateLimiterResult is the one match m describes.
func c36Observed(res launch.RateLimiterResult, m c36Match) bool {
	if res.RulesetType != m.Typ {
		return false
	}

	if !c36LimiterIs(res.Limiter, m.Rule) {
		return false
	}

	switch m.Typ {
	case "clientid", "net":
		return strings.Contains(res.RulesetDesc, strconv.Quote(m.Desc))
	}

	return true
}

func c36LimiterIs(lim string, rule c36Rule) bool {
	switch rule.Kind {
	case "nolimit":
		return lim == "nolimit"
	case "zero":
		return lim == "0"
	}

	i := strings.SplitN(lim, "/", 2)
	if len(i) != 2 {
		return false
	}

	b, err := strconv.Atoi(i[0])
	if err != nil || b != rule.Burst {
		return false
	}

	d, err := time.ParseDuration(i[1])
	if err != nil {
		return false
	}

	diff := d - time.Duration(rule.Ms)*time.Millisecond
	if diff < 0 {
		diff = -diff
	}

	return diff <= 5*time.Microsecond // the limiter keeps the interval per token: rounding of d/burst only
}

// ---- world

type c36World struct {
	handlers []string
	clients  []string
	addrs    []*net.UDPAddr
	cidrs    []string
	nodes    []base.Address
}

func c36NewWorld() *c36World {
	w := &c36World{
		handlers: []string{
			isaacnetwork.HandlerNameBlockMap.String(),
			isaacnetwork.HandlerNameOperation.String(),
			isaacnetwork.HandlerNameProposal.String(),
		},
		clients: []string{"c1", "c2", "c3"},
		cidrs:   []string{"10.0.0.0/8", "10.0.0.0/24", "10.0.1.0/24", "192.168.0.0/16", "0.0.0.0/0", "fd00::/8"},
		nodes:   []base.Address{base.NewStringAddress("n1"), base.NewStringAddress("n2"), base.NewStringAddress("n3")},
	}

	w.addrs = []*net.UDPAddr{
		{IP: net.ParseIP("10.0.0.1"), Port: 4001},
		{IP: net.ParseIP("10.0.0.1"), Port: 4002}, // same host, other port: its own limiter
		{IP: net.IPv4(10, 0, 1, 7).To4(), Port: 4001},
		{IP: net.ParseIP("192.168.3.4"), Port: 4001},
		{IP: net.ParseIP("172.16.0.9"), Port: 4001},
		{IP: net.ParseIP("fd00::1"), Port: 4001},
	}

	return w
}

type c36Gen struct {
	rt  *rapid.T
	w   *c36World
	uid int
}

func (g *c36Gen) rule() c36Rule {
	switch k := rapid.IntRange(0, 9).Draw(g.rt, "ruleKind"); {
	case k == 8:
		return c36Rule{Kind: "nolimit"}
	case k == 9:
		return c36Rule{Kind: "zero"}
	default:
		g.uid++ // every b/d rule of a case has its own duration, so the reported limiter identifies the rule
		base := rapid.SampledFrom([]int{3000, 4, 60000, 4, 3000}).Draw(g.rt, "durClass")

		return c36Rule{Kind: "bd", Burst: rapid.IntRange(1, 4).Draw(g.rt, "burst"), Ms: base + g.uid}
	}
}

func (g *c36Gen) ruleMap(allowEmpty bool) c36Map {
	var m c36Map

	if rapid.IntRange(0, 9).Draw(g.rt, "hasD") < 6 {
		r := g.rule()
		m.D = &r
	}

	for _, h := range g.w.handlers {
		if rapid.IntRange(0, 9).Draw(g.rt, "hasH") < 4 {
			if m.M == nil {
				m.M = map[string]c36Rule{}
			}

			m.M[h] = g.rule()
		}
	}

	if m.empty() && !allowEmpty {
		r := g.rule()
		m.D = &r
	}

	return m
}

func (g *c36Gen) kind(c *c36Config, kind string, initial bool) {
	switch kind {
	case "clientid":
		c.HasClientID = rapid.IntRange(0, 3).Draw(g.rt, "hasClientID") < 3
		c.ClientID = map[string]c36Map{}

		if c.HasClientID {
			for _, cl := range g.w.clients[:2] { // c3 never has a rule
				if rapid.IntRange(0, 9).Draw(g.rt, "hasClient") < 7 {
					c.ClientID[cl] = g.ruleMap(true)
				}
			}
		}
	case "net":
		c.HasNets = rapid.IntRange(0, 3).Draw(g.rt, "hasNets") < 3
		c.Nets = nil

		if c.HasNets {
			perm := rapid.Permutation(g.w.cidrs).Draw(g.rt, "cidrs")
			for _, cidr := range perm[:rapid.IntRange(0, 3).Draw(g.rt, "nNets")] {
				c.Nets = append(c.Nets, c36Net{CIDR: cidr, Map: g.ruleMap(true)})
			}
		}
	case "node":
		c.HasNodes = rapid.IntRange(0, 3).Draw(g.rt, "hasNodes") < 3
		c.Nodes = map[string]c36Map{}

		if c.HasNodes {
			for _, n := range g.w.nodes[:2] { // n3 never has a rule
				if rapid.IntRange(0, 9).Draw(g.rt, "hasNode") < 7 {
					c.Nodes[n.String()] = g.ruleMap(true)
				}
			}
		}
	case "suffrage":
		c.Suffrage = g.ruleMap(true)
	case "default":
		c.Default = g.ruleMap(false) // RateLimiterRules.IsValid: the default map is never empty
	}

	// how the set is built: constructors (as the in-tree tests and embedding programs do) or decoded from JSON
	// (config file at start; at run time only the suffrage set reaches Set...RuleSet through the decoder)
	c.ViaJSON[kind] = (initial || kind == "suffrage") && rapid.Bool().Draw(g.rt, "viaJSON")
}

func c36Apply(t ev.TB, rules *launch.RateLimiterRules, c *c36Config, kind string) {
	viaJSON := c.ViaJSON[kind]

	fail := func(err error) {
		if err != nil {
			t.Fatalf("harness: building %s rule set: %v", kind, err)
		}
	}

	decode := func(v any, into any) {
		b, err := json.Marshal(v)
		fail(err)
		fail(json.Unmarshal(b, into))
	}

	switch kind {
	case "clientid":
		switch {
		case !c.HasClientID:
			fail(rules.SetClientIDRuleSet(nil))
		case viaJSON:
			o := map[string]map[string]string{}
			for k, v := range c.ClientID {
				o[k] = v.obj()
			}

			var rs launch.ClientIDRateLimiterRuleSet
			decode(o, &rs)
			fail(rules.SetClientIDRuleSet(rs))
		default:
			o := map[string]launch.RateLimiterRuleMap{}
			for k, v := range c.ClientID {
				o[k] = v.real()
			}

			fail(rules.SetClientIDRuleSet(launch.NewClientIDRateLimiterRuleSet(o)))
		}
	case "net":
		switch {
		case !c.HasNets:
			fail(rules.SetNetRuleSet(nil))
		case viaJSON:
			o := make([]map[string]map[string]string, len(c.Nets))
			for i, n := range c.Nets {
				o[i] = map[string]map[string]string{n.CIDR: n.Map.obj()}
			}

			var rs launch.NetRateLimiterRuleSet
			decode(o, &rs)
			fail(rs.IsValid(nil))
			fail(rules.SetNetRuleSet(rs))
		default:
			rs := launch.NewNetRateLimiterRuleSet()

			for _, n := range c.Nets {
				_, ipnet, err := net.ParseCIDR(n.CIDR)
				fail(err)
				rs.Add(ipnet, n.Map.real())
			}

			fail(rs.IsValid(nil))
			fail(rules.SetNetRuleSet(rs))
		}
	case "node":
		switch {
		case !c.HasNodes:
			fail(rules.SetNodeRuleSet(nil))
		case viaJSON:
			o := map[string]map[string]string{}
			for k, v := range c.Nodes {
				o[k] = v.obj()
			}

			var rs launch.NodeRateLimiterRuleSet
			decode(o, &rs)
			fail(rules.SetNodeRuleSet(rs))
		default:
			o := map[string]launch.RateLimiterRuleMap{}
			for k, v := range c.Nodes {
				o[k] = v.real()
			}

			fail(rules.SetNodeRuleSet(launch.NewNodeRateLimiterRuleSet(o)))
		}
	case "suffrage":
		if viaJSON {
			rs := &launch.SuffrageRateLimiterRuleSet{}
			decode(c.Suffrage.obj(), rs)
			fail(rules.SetSuffrageRuleSet(rs))
		} else {
			fail(rules.SetSuffrageRuleSet(launch.NewSuffrageRateLimiterRuleSet(c.Suffrage.real())))
		}
	case "default":
		if viaJSON {
			var rm launch.RateLimiterRuleMap
			decode(c.Default.obj(), &rm)
			fail(rules.SetDefaultRuleMap(rm))
		} else {
			fail(rules.SetDefaultRuleMap(c.Default.real()))
		}
	}
}

var c36Kinds = []string{"clientid", "net", "node", "suffrage", "default"}

// ---- streams

type c36Event struct {
	t0, t1  time.Time
	allowed bool
	key     string // epoch + identity of the rule the statement selects
	match   c36Match
	desc    string
}

type c36Stream struct {
	addr, handler string
	events        []c36Event
	tainted       bool // a selection mismatch (known finding) happened: the enforcement clause is not judged
	prevType      string
	prevLimiter   string
	prevDesc      string
	prevEpoch     int
	prevMember    bool   // the node bound to the address was in the consensus nodes at the previous request
	prevHash      string // suffrage state hash reported at the previous request
	prevNode      string // node bound to the address at the previous request
	has           bool
}

func c36Enforce(t ev.TB, r *ev.Rec, s *c36Stream, cfgDesc string) {
	if s.tainted {
		return
	}

	groups := map[string][]int{}
	var order []string

	for i, e := range s.events {
		if _, found := groups[e.key]; !found {
			order = append(order, e.key)
		}

		groups[e.key] = append(groups[e.key], i)
	}

	history := func(idx []int) string {
		var sb strings.Builder

		t0 := s.events[0].t0
		for i, e := range s.events {
			mark := " "
			if len(idx) > 0 && i >= idx[0] && i <= idx[len(idx)-1] {
				mark = "*"
			}

			fmt.Fprintf(&sb, "\n  %s#%d +%v %s allowed=%v rule=%s", mark, i, e.t0.Sub(t0).Round(time.Microsecond), e.desc, e.allowed, e.match)
		}

		return sb.String()
	}

	for pass := 0; pass < 2; pass++ { // 0: windows of consecutive requests only; 1: windows interleaved with other rules
		for _, key := range order {
			idx := groups[key]
			rule := s.events[idx[0]].match.Rule

			for a := range idx {
				cnt := 0

				for b := a; b < len(idx); b++ {
					contiguous := idx[b]-idx[a] == b-a
					if pass == 0 && !contiguous {
						break
					}

					e := s.events[idx[b]]
					if e.allowed {
						cnt++
					}

					switch rule.Kind {
					case "nolimit":
						// an unlimited rule that is applied cannot reject
						if !e.allowed && pass == 0 && a == b {
							r.Violation(t, "nolimit-rule-rejected", "stream addr=%s handler=%s: request #%d selected the unlimited rule %s but was rejected; rules: %s; stream:%s",
								s.addr, s.handler, idx[b], e.match, cfgDesc, history(idx[a:b+1]))
						}
					case "zero":
						if e.allowed && pass == 0 && a == b {
							r.Violation(t, "zero-rule-allowed", "stream addr=%s handler=%s: request #%d selected the reject-all rule %s but was allowed; rules: %s; stream:%s",
								s.addr, s.handler, idx[b], e.match, cfgDesc, history(idx[a:b+1]))
						}
					default:
						window := e.t1.Sub(s.events[idx[a]].t0).Seconds()
						bound := float64(rule.Burst) + rule.rate()*window + 1

						if float64(cnt) > bound {
							sig := "rate-exceeded"
							if !contiguous {
								sig = "limiter-reset-on-rule-switch"
							}

							r.Violation(t, sig, "stream addr=%s handler=%s: %d requests were allowed under rule %s within %.6fs (requests #%d..#%d marked *), bound burst+rate*window = %d+%.3f*%.6f = %.3f (+1 slack); rules: %s; stream:%s",
								s.addr, s.handler, cnt, s.events[idx[a]].match, window, idx[a], idx[b], rule.Burst, rule.rate(), window, bound-1, cfgDesc, history(idx[a:b+1]))

							return // known finding: one report per stream is enough
						}
					}
				}
			}
		}
	}
}

// c36Run is one rate-limit handler with its model: rule configuration, membership, node table, streams.
type c36Run struct {
	r       *ev.Rec
	w       *c36World
	cfg     *c36Config
	ms      *c36Membership
	rules   *launch.RateLimiterRules
	h       *launch.RateLimitHandler
	streams map[string]*c36Stream
	order   []*c36Stream
	nodeOf  map[string]string
	epoch   int
	cfgDesc string
	initial string
	fp      strings.Builder
	classes map[string]bool
	nontriv bool
	sample  []string
}

func (x *c36Run) newHash() {
	x.ms.n++
	x.ms.hash = valuehash.NewSHA256([]byte(fmt.Sprintf("suffrage-state-%d", x.ms.n)))
}

func c36NewRun(t ev.TB, r *ev.Rec, w *c36World, cfg *c36Config, members map[string]bool) *c36Run {
	x := &c36Run{
		r: r, w: w, cfg: cfg, ms: &c36Membership{members: members},
		streams: map[string]*c36Stream{}, nodeOf: map[string]string{}, classes: map[string]bool{},
	}
	x.newHash()

	ms := x.ms
	x.rules = launch.NewRateLimiterRules()
	x.rules.SetIsInConsensusNodesFunc(func() (util.Hash, func(base.Address) bool, error) {
		if ms.err {
			return nil, nil, errors.New("proof not found")
		}

		return ms.hash, func(a base.Address) bool { return ms.members[a.String()] }, nil
	})

	for _, k := range c36Kinds {
		c36Apply(t, x.rules, cfg, k)
	}

	args := launch.NewRateLimitHandlerArgs()
	args.Rules = x.rules

	h, err := launch.NewRateLimitHandler(args)
	if err != nil {
		t.Fatalf("harness: %v", err)
	}

	x.h = h
	x.cfgDesc = cfg.String()
	x.initial = x.cfgDesc
	x.fp.WriteString(x.cfgDesc)

	return x
}

// updated is called after the model configuration of `kind` was replaced.
func (x *c36Run) updated(t ev.TB, kind string) {
	c36Apply(t, x.rules, x.cfg, kind)
	x.epoch++
	x.cfgDesc = x.cfg.String()
	fmt.Fprintf(&x.fp, "|U:%s", x.cfgDesc)
	x.classes["update:"+kind] = true
}

func (x *c36Run) membership(what string) {
	x.epoch++
	x.classes["membership-change"] = true
	fmt.Fprintf(&x.fp, "|M%s", what)
}

// setMember moves one node into / out of the consensus nodes. sameHash = the reported suffrage state hash stays
// as it is: in production the membership function covers the suffrage nodes AND the suffrage candidates while the
// hash is the hash of the suffrage state only (launch.rateLimiterIsInConsensusNodesFunc), so a candidate that is
// added / removed / expires changes the membership without changing the hash.
func (x *c36Run) setMember(node string, in, sameHash bool) {
	x.ms.members[node] = in

	if !sameHash {
		x.newHash() // the suffrage state changes with its members
	}

	x.membership(fmt.Sprintf("%s=%v,samehash=%v", node, in, sameHash))
}

// request sends one request through RateLimitHandler.Func and judges the selection clause.
// hint: -1 = the client-id key is absent from the context, 0 = empty id, 1..3 = c1..c3.
func (x *c36Run) request(t ev.TB, ai, hi, hint int, reg base.Address) {
	r, w, cfg := x.r, x.w, x.cfg
	addr, handler := w.addrs[ai], w.handlers[hi]
	clientID := ""

	ctx := context.WithValue(context.Background(), launch.RateLimiterLimiterNameContextKey, handler)
	if hint >= 0 {
		if hint > 0 {
			clientID = w.clients[hint-1]
		}

		ctx = context.WithValue(ctx, launch.RateLimiterClientIDContextKey, clientID)
	}

	node := x.nodeOf[addr.String()]
	desc := fmt.Sprintf("client=%q node=%q", clientID, node)
	fmt.Fprintf(&x.fp, "|R%d,%d,%d,%v", ai, hi, hint, reg)

	// expected
	want, kinds := c36Select(cfg, addr.IP, handler, clientID, node, x.ms, false)
	wantStrict, _ := c36Select(cfg, addr.IP, handler, clientID, node, x.ms, true)

	if kinds >= 2 {
		x.nontriv = true
	}

	// run
	fcalled := false
	var res launch.RateLimiterResult
	hasRes := false

	grab := func(c context.Context) {
		if c == nil {
			return
		}

		if f, ok := c.Value(launch.RateLimiterResultContextKey).(func() launch.RateLimiterResult); ok {
			res = f()
			hasRes = true
		}
	}

	t0 := time.Now()
	rctx, ferr := x.h.Func(ctx, addr, func(ictx context.Context) (context.Context, error) {
		fcalled = true
		grab(ictx)

		if reg != nil {
			return context.WithValue(ictx, isaacnetwork.ContextKeyNodeChallengedNode, reg), nil
		}

		return ictx, nil
	})
	t1 := time.Now()

	if !fcalled {
		grab(rctx)
	}

	allowed := fcalled

	switch {
	case !hasRes:
		t.Fatalf("harness: no RateLimiterResult in the context (handler=%s)", handler)
	case fcalled && ferr != nil, !fcalled && !errors.Is(ferr, launch.ErrRateLimited):
		t.Fatalf("harness: unexpected outcome called=%v err=%v", fcalled, ferr)
	case res.Allowed != allowed:
		r.Violation(t, "result-allowed-flag", "result says allowed=%v but the handler was called=%v", res.Allowed, fcalled)
	}

	key := addr.String() + "|" + handler

	s := x.streams[key]
	if s == nil {
		s = &c36Stream{addr: addr.String(), handler: handler}
		x.streams[key] = s
		x.order = append(x.order, s)
	}

	// coverage: the consensus-nodes membership of the bound node changed since the previous request of this stream
	member := node != "" && !x.ms.err && x.ms.members[node]
	hashNow := x.ms.hash.String()

	if s.has && node != "" && node == s.prevNode && !x.ms.err && member != s.prevMember {
		what := "joined"
		if !member {
			what = "left"
		}

		if s.prevType == "suffrage" {
			what += "-with-cached-suffrage-limiter"
		}

		if hashNow == s.prevHash {
			what += ":same-hash"
		} else {
			what += ":new-hash"
		}

		x.classes["consensus-nodes-"+what] = true
	}

	got := want

	switch {
	case c36Observed(res, want):
	case c36Observed(res, wantStrict):
		got = wantStrict
		x.classes["net-first-containing-net-has-no-rule"] = true
	default:
		sig := fmt.Sprintf("selection-want-%s-got-%s", want.Typ, res.RulesetType)

		switch {
		case !s.has:
		case res.RulesetType == "suffrage" && s.prevType == "suffrage" && node != "" && !x.ms.err && !x.ms.members[node]:
			// the suffrage rule matches only nodes that are in the consensus nodes NOW: the limiter cached while
			// the node was one of them is still used after the node left
			sig = "cached-suffrage-limiter-after-leaving"
		case res.RulesetType != s.prevType:
		case want.Typ != s.prevType:
			// the limiter cached for this (addr, handler) keeps its rule kind although another kind now has precedence
			sig = "cached-" + s.prevType + "-limiter-reused"
		case res.Limiter == s.prevLimiter && res.RulesetDesc == s.prevDesc:
			// same kind, but the previous request's rule instead of the one that matches now
			sig = "cached-" + s.prevType + "-limiter-reused"

			if cfg.ViaJSON[want.Typ] && s.prevEpoch != x.epoch {
				sig = "decoded-ruleset-update-ignored"
			}
		}

		s.tainted = true
		x.classes["tainted"] = true

		r.Violation(t, sig,
			"request #%d addr=%s handler=%s client-id=%q node=%q: limiter used = type %q limiter %q desc %q; the statement selects %s. previous request on this (addr,handler): type %q limiter %q (rule sets / membership / node changed since: %v; node in the consensus nodes now: %v, at the previous request: %v; suffrage state hash changed since: %v). rules: %s; initial rules: %s",
			len(s.events), addr, handler, clientID, node, res.RulesetType, res.Limiter, res.RulesetDesc, want,
			s.prevType, s.prevLimiter, s.prevEpoch != x.epoch, member, s.prevMember, s.has && hashNow != s.prevHash, x.cfgDesc, x.initial)
	}

	s.has = true
	s.prevType, s.prevLimiter, s.prevDesc, s.prevEpoch = res.RulesetType, res.Limiter, res.RulesetDesc, x.epoch
	s.prevMember, s.prevHash, s.prevNode = member, hashNow, node

	s.events = append(s.events, c36Event{
		t0: t0, t1: t1, allowed: allowed, match: got, desc: desc,
		key: fmt.Sprintf("%d|%s", x.epoch, got),
	})

	r.Class("selected:"+got.Typ, 1)
	r.Class("rulekind:"+got.Rule.Kind, 1)

	if allowed {
		r.Class("allowed", 1)
	} else {
		r.Class("rejected", 1)
	}

	if len(x.sample) < 12 {
		x.sample = append(x.sample, fmt.Sprintf("%s %s %s -> %s allowed=%v", addr, handler, desc, got, allowed))
	}

	// node registration happens after an allowed request that carried a node challenge; the first one stays
	if allowed && reg != nil {
		if _, found := x.nodeOf[addr.String()]; !found {
			x.nodeOf[addr.String()] = reg.String()
			x.epoch++
			x.classes["node-registered"] = true
		}
	}
}

// finish judges the enforcement clause and records the case.
func (x *c36Run) finish(t ev.TB, extra map[string]any) {
	for _, s := range x.order {
		c36Enforce(t, x.r, s, x.cfgDesc)

		if len(s.events) >= 8 {
			x.classes["stream>=8"] = true
		}
	}

	cl := make([]string, 0, len(x.classes))
	for c := range x.classes {
		cl = append(cl, c)
	}

	sort.Strings(cl)
	x.r.Case(x.fp.String(), x.nontriv, cl...)

	if x.nontriv && x.r.WantSample() {
		m := map[string]any{"rules": x.initial, "first_requests": x.sample}
		for k, v := range extra {
			m[k] = v
		}

		x.r.Sample(m)
	}
}

func c36DefaultOnly(r c36Rule) c36Map { return c36Map{D: &r} }

func TestC36(t *testing.T) {
	r := ev.Start(t, "C36")
	defer r.Finish()
	r.Rule("rule sets drawn per kind (client-id map for c1/c2, 0..3 ordered possibly overlapping CIDRs, node map for n1/n2, suffrage map + membership function, " +
		"default map with/without default entry), rules {nolimit, 0, burst 1..4 per unique duration}, each set built by constructor or decoded from JSON; " +
		"40 (quick) / 60 steps: requests through RateLimitHandler.Func (handler name, client id absent/empty/c1..c3 in constant, alternating or random pattern, " +
		"6 UDP addresses, node registration through the challenged-node context value), rule-set updates, consensus-nodes membership changes with a new or the SAME suffrage state hash " +
		"(suffrage node vs. candidate; mostly of the node bound to the focus address), hash-only changes, membership-lookup errors, 1-3 ms sleeps; " +
		"plus 9 directed scenarios (precedence ladder, client-id change, client-id after net, decoded suffrage update, alternating client id, bound node leaving/joining the consensus nodes x same/new hash). " +
		"Oracle (a) every request: RateLimiterResult (ruleset type, limiter, desc) = the statement's precedence on the current rule sets; " +
		"(b) per (addr, handler, selected rule) between configuration changes: allowed(window) <= burst + rate*window + 1 on the real clock, reject-all allows none, unlimited rejects none. " +
		"non-trivial: some request of the case matches >= 2 of {clientid, net, node, suffrage, default map}; distinct by (rule sets, step sequence)")
	r.Floor(100)
	r.Assume(
		"RulesetType vocabulary clientid/net/node/suffrage/defaultmap/default names the six rule kinds of the statement; the built-in default is 33 per 3s",
		"'first matching network rule': when the first configured net containing the address has no rule for the handler, both readings (stop there / try the next net) are accepted",
		"a node is attached to an address by the first successful node challenge from that address (AddNode keeps the first)",
		"'in the consensus nodes' is what IsInConsensusNodesFunc's membership function says at the time of the request; the state hash it reports is the hash of the suffrage state only, so the membership (suffrage nodes + candidates) can change while the hash stays (launch.rateLimiterIsInConsensusNodesFunc)",
		"the enforcement clause is judged per selected rule between configuration changes (an operator's update may legitimately restart a limiter)",
		"the limiter clock (x/time/rate, time.Now) cannot be controlled: the rate bound is one-sided on the real clock, +1 request of slack",
	)

	w := c36NewWorld()
	nSteps := r.N(40, 60)

	// ---- A. directed scenarios (each is also the minimal form of a finding of the random part)
	t.Run("directed", func(t *testing.T) {
		if r.Shard != 0 || os.Getenv("VERIF_RAPID_FAILFILE") != "" {
			return // one shard runs them; a rapid replay goes straight to the recorded case
		}

		slow := func(burst, id int) c36Rule { return c36Rule{Kind: "bd", Burst: burst, Ms: 60000 + id} }
		n1 := w.nodes[0]
		base := func() *c36Config {
			return &c36Config{
				ViaJSON:  map[string]bool{},
				ClientID: map[string]c36Map{}, Nodes: map[string]c36Map{},
				Default: c36DefaultOnly(slow(2, 9)),
			}
		}

		// 1. precedence ladder on fresh (addr, handler) pairs: every kind matches, kinds are removed from the top
		{
			cfg := base()
			cfg.HasClientID, cfg.ClientID = true, map[string]c36Map{"c1": c36DefaultOnly(slow(1, 1))}
			cfg.HasNets, cfg.Nets = true, []c36Net{{"10.0.0.0/24", c36DefaultOnly(slow(2, 2))}, {"10.0.0.0/8", c36DefaultOnly(slow(3, 3))}}
			cfg.HasNodes, cfg.Nodes = true, map[string]c36Map{n1.String(): c36DefaultOnly(slow(4, 4))}
			cfg.Suffrage = c36DefaultOnly(slow(3, 5))

			x := c36NewRun(t, r, w, cfg, map[string]bool{n1.String(): true})
			x.request(t, 0, 0, 0, n1)  // registers n1 for 10.0.0.1:4001
			x.request(t, 0, 1, 1, nil) // fresh handler: client id wins
			x.cfg.HasClientID = false
			x.updated(t, "clientid")
			x.request(t, 0, 2, 1, nil) // fresh handler: first net wins
			x.cfg.HasNets = false
			x.updated(t, "net")
			x.request(t, 1, 0, 0, n1)  // other port: registers n1 there
			x.request(t, 1, 1, 1, nil) // node rule
			x.cfg.HasNodes = false
			x.updated(t, "node")
			x.request(t, 1, 2, 1, nil) // suffrage rule
			x.cfg.Suffrage = c36Map{}
			x.updated(t, "suffrage")
			x.request(t, 2, 0, 1, nil) // default map
			x.cfg.Default = c36Map{M: map[string]c36Rule{w.handlers[1]: slow(1, 6)}}
			x.updated(t, "default")
			x.request(t, 2, 2, 1, nil) // built-in default
			x.finish(t, map[string]any{"scenario": "ladder"})
		}

		// 2. the client id changes between two requests of one (addr, handler)
		{
			cfg := base()
			cfg.HasClientID = true
			cfg.ClientID = map[string]c36Map{"c1": c36DefaultOnly(slow(1, 1)), "c2": c36DefaultOnly(slow(3, 2))}

			x := c36NewRun(t, r, w, cfg, map[string]bool{})
			x.request(t, 0, 0, 1, nil)
			x.request(t, 0, 0, 2, nil)
			x.request(t, 0, 0, 3, nil) // c3 has no rule: default map
			x.finish(t, map[string]any{"scenario": "client-id-change"})
		}

		// 3. a request without client id, then one with a client id that has a rule, from an address inside a configured net
		{
			cfg := base()
			cfg.HasClientID, cfg.ClientID = true, map[string]c36Map{"c1": c36DefaultOnly(slow(1, 1))}
			cfg.HasNets, cfg.Nets = true, []c36Net{{"10.0.0.0/8", c36DefaultOnly(slow(4, 2))}}

			x := c36NewRun(t, r, w, cfg, map[string]bool{})
			x.request(t, 0, 0, -1, nil)
			x.request(t, 0, 0, 1, nil)
			x.finish(t, map[string]any{"scenario": "client-id-after-net"})
		}

		// 4. the suffrage rule set is replaced at run time by one decoded from JSON (what the node-write handler does)
		{
			cfg := base()
			cfg.Suffrage = c36DefaultOnly(slow(1, 1))
			cfg.ViaJSON["suffrage"] = true

			x := c36NewRun(t, r, w, cfg, map[string]bool{n1.String(): true})
			x.request(t, 0, 0, -1, n1)
			x.request(t, 0, 0, -1, nil)
			x.cfg.Suffrage = c36DefaultOnly(slow(2, 2))
			x.updated(t, "suffrage")
			x.request(t, 0, 0, -1, nil)
			x.finish(t, map[string]any{"scenario": "decoded-suffrage-update"})
		}

		// 5. a client alternates between its client id and none: two rules with burst 1 per minute each
		{
			cfg := base()
			cfg.HasClientID, cfg.ClientID = true, map[string]c36Map{"c1": c36DefaultOnly(slow(1, 1))}
			cfg.Default = c36DefaultOnly(slow(1, 2))

			x := c36NewRun(t, r, w, cfg, map[string]bool{})
			for i := 0; i < 6; i++ {
				x.request(t, 0, 0, 1, nil)
				x.request(t, 0, 0, 0, nil)
			}

			x.finish(t, map[string]any{"scenario": "alternating-client-id"})
		}

		// 6. an address bound to a node; the node leaves / joins the consensus nodes with the same suffrage state
		// hash (a candidate comes or goes) or with a new one (the suffrage changed); requests go on on the same
		// (addr, handler): the suffrage rule is selected exactly while the node is in the consensus nodes
		for _, startIn := range []bool{true, false} {
			for _, sameHash := range []bool{true, false} {
				cfg := base()
				cfg.Suffrage = c36DefaultOnly(slow(3, 1))

				x := c36NewRun(t, r, w, cfg, map[string]bool{n1.String(): startIn})
				x.request(t, 0, 0, -1, n1) // binds 10.0.0.1:4001 to n1

				in := startIn
				for phase := 0; phase < 3; phase++ {
					for i := 0; i < 3; i++ {
						x.request(t, 0, 0, -1, nil)
					}

					in = !in
					x.setMember(n1.String(), in, sameHash)
				}

				for i := 0; i < 3; i++ {
					x.request(t, 0, 0, -1, nil)
				}

				x.finish(t, map[string]any{"scenario": fmt.Sprintf("consensus-nodes-membership start-in=%v same-hash=%v", startIn, sameHash)})
			}
		}
	})

	// ---- B. random rule sets and streams
	r.Checks(3000, 120000)
	r.ShrinkTime(20 * time.Second)
	rapid.Check(t, func(rt *rapid.T) {
		g := &c36Gen{rt: rt, w: w}

		cfg := &c36Config{ViaJSON: map[string]bool{}}
		for _, k := range c36Kinds {
			g.kind(cfg, k, true)
		}

		members := map[string]bool{}
		for _, n := range w.nodes {
			members[n.String()] = rapid.Bool().Draw(rt, "member")
		}

		x := c36NewRun(rt, r, w, cfg, members)

		hintGen := rapid.IntRange(-1, 3)
		focusAddr := rapid.IntRange(0, len(w.addrs)-1).Draw(rt, "focusAddr")
		focusHandler := rapid.IntRange(0, len(w.handlers)-1).Draw(rt, "focusHandler")
		pattern := rapid.SampledFrom([]string{"alt", "const", "random", "alt"}).Draw(rt, "pattern")
		hintA := hintGen.Draw(rt, "hintA")
		hintB := hintGen.Draw(rt, "hintB")
		focusN := 0

		x.classes["pattern:"+pattern] = true

		for step := 0; step < nSteps; step++ {
			switch op := rapid.IntRange(0, 99).Draw(rt, "op"); {
			case op >= 93: // rule-set update (rapid favours small draws: the common operation, a request, takes the low values)
				k := rapid.SampledFrom(c36Kinds).Draw(rt, "updateKind")
				g.kind(cfg, k, false)
				x.updated(rt, k)

				continue
			case op >= 88: // membership / suffrage state
				switch rapid.IntRange(0, 5).Draw(rt, "memberOp") {
				case 0:
					x.ms.err = !x.ms.err
					x.membership(fmt.Sprintf("err=%v", x.ms.err))
				case 1:
					x.newHash()
					x.membership("hash")
				default:
					// a node joins / leaves the consensus nodes: a suffrage node (the suffrage state and its hash
					// change) or a candidate (same hash); mostly the node bound to the focus address, if any
					n := rapid.SampledFrom(w.nodes).Draw(rt, "memberNode").String()
					if bound := x.nodeOf[w.addrs[focusAddr].String()]; bound != "" && rapid.IntRange(0, 3).Draw(rt, "memberOfFocus") > 0 {
						n = bound
					}

					x.setMember(n, !x.ms.members[n], rapid.Bool().Draw(rt, "sameHash"))
				}

				continue
			case op >= 82:
				d := rapid.IntRange(1, 3).Draw(rt, "sleepMs")
				time.Sleep(time.Duration(d) * time.Millisecond)
				fmt.Fprintf(&x.fp, "|S%d", d)

				continue
			}

			ai, hi, hint := focusAddr, focusHandler, hintA

			if rapid.IntRange(0, 9).Draw(rt, "onFocus") < 7 {
				switch pattern {
				case "alt":
					if focusN%2 == 1 {
						hint = hintB
					}
				case "random":
					hint = hintGen.Draw(rt, "hint")
				}

				focusN++
			} else {
				ai = rapid.IntRange(0, len(w.addrs)-1).Draw(rt, "addr")
				hi = rapid.IntRange(0, len(w.handlers)-1).Draw(rt, "handler")
				hint = hintGen.Draw(rt, "hint")
			}

			var reg base.Address
			if rapid.IntRange(0, 9).Draw(rt, "challenge") >= 8 {
				reg = rapid.SampledFrom(w.nodes).Draw(rt, "challengeNode")
			}

			x.request(rt, ai, hi, hint, reg)
		}

		x.finish(rt, map[string]any{"pattern": pattern})
	})
}
