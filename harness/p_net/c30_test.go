package p_net

import (
	"bytes"
	"context"
	"crypto/sha256"
	"encoding/binary"
	"encoding/hex"
	"encoding/json"
	"errors"
	"fmt"
	"io"
	"math"
	"net"
	"net/url"
	"os"
	"runtime"
	"sort"
	"strconv"
	"strings"
	"sync"
	"testing"
	"time"

	"github.com/spikeekips/mitum/base"
	isaacnetwork "github.com/spikeekips/mitum/isaac/network"
	"github.com/spikeekips/mitum/launch"
	"github.com/spikeekips/mitum/network/quicmemberlist"
	"github.com/spikeekips/mitum/network/quicstream"
	quicstreamheader "github.com/spikeekips/mitum/network/quicstream/header"
	"github.com/spikeekips/mitum/util"
	"github.com/spikeekips/mitum/util/encoder"
	jsonenc "github.com/spikeekips/mitum/util/encoder/json"
	"github.com/spikeekips/mitum/util/hint"
	"github.com/spikeekips/mitum/util/valuehash"
	"pgregory.net/rapid"
	"verif/internal/ev"
)

// C30: quicstream header protocol (network/quicstream/header). Two halves:
//   A. round trip: a client broker and a handler broker are connected by two in-memory byte streams that deliver the
//      written bytes in drawn chunk sizes; what one side writes (request head, bodies of every kind, response heads)
//      must be what the other side reads.
//   B. hostile peer: a byte stream (mutated valid transcripts, or fuzz input) is fed into the read side; every read
//      returns an error or a well-formed message and never panics.
//   C. sequences: a node reads many streams with ONE encoder set (encoder.Encoders and the hint sets inside it keep
//      lookup caches between reads). A drawn sequence of streams - hostile heads that name a parsable but unregistered
//      encoder hint or header hint, each sent two or more times in a row, other hostile streams, valid streams - is read
//      by fresh brokers that share one fresh encoder set; every read obeys B, and the valid streams are still read
//      completely / round-trip identically (A) wherever they stand in the sequence.

// ---------------------------------------------------------------- environment

type c30Env struct {
	enc   *jsonenc.Encoder
	encs  *encoder.Encoders
	keys  []*base.MPrivatekey
	addrs []base.Address
	hints []string // every hint registered the way launch does
	// registered: type -> major versions of every registered hint and of the encoder itself (a hint of another type, or
	// of another major version of a known type, is not registered)
	registered map[string]map[uint64]bool
	// note is appended to the input description of every hostile-read violation (the position in a sequence of reads)
	note string
}

// c30NewSeqEnv builds a fresh encoder set exactly as c30GetEnv / launch do. Nothing is shared with env but the keys.
func c30NewSeqEnv(env *c30Env) *c30Env {
	enc := jsonenc.NewEncoder()
	encs := encoder.NewEncoders(enc, enc)

	if err := launch.LoadHinters(encs); err != nil {
		panic(err)
	}

	return &c30Env{enc: enc, encs: encs, keys: env.keys, addrs: env.addrs, hints: env.hints, registered: env.registered}
}

var c30GetEnv = sync.OnceValue(func() *c30Env {
	enc := jsonenc.NewEncoder()
	encs := encoder.NewEncoders(enc, enc) // launch.PEncoder

	if err := launch.LoadHinters(encs); err != nil { // launch.PAddHinters
		panic(err)
	}

	env := &c30Env{enc: enc, encs: encs}

	for i := 0; i < 3; i++ {
		k, err := base.NewMPrivatekeyFromSeed(fmt.Sprintf("c30-key-seed-%032d", i))
		if err != nil {
			panic(err)
		}

		env.keys = append(env.keys, k)
		env.addrs = append(env.addrs, base.NewStringAddress(fmt.Sprintf("c30node%d", i)))
	}

	for i := range launch.Hinters {
		env.hints = append(env.hints, launch.Hinters[i].Hint.String())
	}

	for i := range launch.SupportedProposalOperationFactHinters {
		env.hints = append(env.hints, launch.SupportedProposalOperationFactHinters[i].Hint.String())
	}

	sort.Strings(env.hints)

	env.registered = map[string]map[uint64]bool{}

	for _, s := range append([]string{enc.Hint().String()}, env.hints...) {
		ht, err := hint.ParseHint(s)
		if err != nil {
			panic(err)
		}

		if env.registered[ht.Type().String()] == nil {
			env.registered[ht.Type().String()] = map[uint64]bool{}
		}

		env.registered[ht.Type().String()][ht.Version().Major()] = true
	}

	return env
})

// ---------------------------------------------------------------- in-memory stream

var (
	errC30WouldBlock = errors.New("c30: read on an empty stream that the peer has not closed")
	errC30ReadGuard  = errors.New("c30: harness guard: read buffer above the bound")
)

type c30Chunking struct {
	Name   string
	Cuts   []int
	EOFTog bool // io.EOF is delivered together with the final bytes (quic-go does that for the frame carrying FIN)
}

func (c c30Chunking) minCut() int {
	if len(c.Cuts) < 1 {
		return math.MaxInt32
	}

	m := c.Cuts[0]
	for _, k := range c.Cuts {
		if k < m {
			m = k
		}
	}

	return m
}

// c30Stream is one direction of a connection: the writer appends, the reader consumes in chunks.
type c30Stream struct {
	mu       sync.Mutex
	buf      []byte
	closed   bool
	ch       c30Chunking
	ci       int
	maxRead  int  // >0: a Read with a larger buffer fails (guard against per-read giant allocations in hostile mode)
	guarded  bool // the guard fired
	blocked  bool // a Read found the stream empty while the writer had not closed it
	badWrite bool // a Write after Close
	written  int
}

func (s *c30Stream) Write(p []byte) (int, error) {
	s.mu.Lock()
	defer s.mu.Unlock()

	if s.closed {
		s.badWrite = true

		return 0, io.ErrClosedPipe
	}

	s.buf = append(s.buf, p...)
	s.written += len(p)

	return len(p), nil
}

func (s *c30Stream) Close() error {
	s.mu.Lock()
	defer s.mu.Unlock()

	s.closed = true

	return nil
}

func (s *c30Stream) Read(p []byte) (int, error) {
	s.mu.Lock()
	defer s.mu.Unlock()

	if len(p) == 0 {
		return 0, nil
	}

	if s.maxRead > 0 && len(p) > s.maxRead {
		s.guarded = true

		return 0, errC30ReadGuard
	}

	if len(s.buf) == 0 {
		if s.closed {
			return 0, io.EOF
		}

		s.blocked = true

		return 0, errC30WouldBlock
	}

	n := len(p)

	if len(s.ch.Cuts) > 0 {
		k := s.ch.Cuts[s.ci%len(s.ch.Cuts)]
		s.ci++

		if k < n {
			n = k
		}
	}

	if n > len(s.buf) {
		n = len(s.buf)
	}

	copy(p, s.buf[:n])
	s.buf = s.buf[n:]

	if len(s.buf) == 0 && s.closed && s.ch.EOFTog {
		return n, io.EOF
	}

	return n, nil
}

func (s *c30Stream) left() int {
	s.mu.Lock()
	defer s.mu.Unlock()

	return len(s.buf)
}

func (s *c30Stream) wasBlocked() bool {
	s.mu.Lock()
	defer s.mu.Unlock()

	return s.blocked
}

func genC30Chunking() *rapid.Generator[c30Chunking] {
	return rapid.Custom(func(t *rapid.T) c30Chunking {
		eof := rapid.Bool().Draw(t, "eofTog")

		switch rapid.IntRange(0, 4).Draw(t, "chunkKind") {
		case 0:
			return c30Chunking{Name: "whole", EOFTog: eof}
		case 1:
			return c30Chunking{Name: "1byte", Cuts: []int{1}, EOFTog: eof}
		case 2:
			return c30Chunking{Name: "small", Cuts: rapid.SliceOfN(rapid.IntRange(1, 7), 1, 8).Draw(t, "cuts"), EOFTog: eof}
		default:
			return c30Chunking{Name: "drawn", Cuts: rapid.SliceOfN(rapid.IntRange(1, 64), 1, 12).Draw(t, "cuts"), EOFTog: eof}
		}
	})
}

// ---------------------------------------------------------------- panic capture

// c30PanicSite names the function that panicked (first mitum frame above the runtime's panic frames); it is the
// root-cause signature of a panic. Must be called from a deferred function while panicking.
func c30PanicSite() string {
	pc := make([]uintptr, 64)
	n := runtime.Callers(2, pc)
	frames := runtime.CallersFrames(pc[:n])

	seenPanic := false
	first := ""

	for {
		fr, more := frames.Next()
		fn := fr.Function

		switch {
		case strings.HasPrefix(fn, "runtime."):
			if strings.HasPrefix(fn, "runtime.gopanic") || strings.HasPrefix(fn, "runtime.panic") || strings.HasPrefix(fn, "runtime.sigpanic") || strings.HasPrefix(fn, "runtime.goPanic") {
				seenPanic = true
			}
		case seenPanic:
			if first == "" {
				first = fn
			}

			if strings.HasPrefix(fn, "github.com/spikeekips/mitum/") {
				return strings.TrimPrefix(fn, "github.com/spikeekips/mitum/")
			}
		}

		if !more {
			break
		}
	}

	if first == "" {
		return "unknown"
	}

	return first
}

func c30Stack() string {
	b := make([]byte, 6000)
	b = b[:runtime.Stack(b, false)]

	return string(b)
}

// c30NoPanic runs f (calls into mitum only; never a harness Fatalf) and turns a panic into a violation whose
// signature names the panicking function. The message is the same for the same input (rapid re-runs a failing
// case and compares); the stack goes to the log.
func c30NoPanic(t ev.TB, r *ev.Rec, what string, f func()) {
	defer func() {
		if x := recover(); x != nil {
			if strings.HasPrefix(fmt.Sprintf("%T", x), "rapid.") {
				panic(x) // rapid's own unwinding (Fatalf / invalid data), not a panic of the code under test
			}

			site := c30PanicSite()
			t.Logf("panic in %s: %v\n%s", what, x, c30Stack())
			r.Violation(t, "panic-"+site, "%s panicked in %s: %v", what, site, x)
		}
	}()

	f()
}

// ---------------------------------------------------------------- messages

type c30Msg struct {
	Dir      int    // 0 client->handler, 1 handler->client
	Kind     string // reqhead | reshead | body
	Req      quicstreamheader.RequestHeader
	Res      quicstreamheader.ResponseHeader
	BodyType quicstreamheader.BodyType
	Body     []byte
	NilBody  bool // write with a nil reader (Empty, or Fixed with length 0)
	Rd       c30ReaderKind // how the io.Reader handed to WriteBody delivers Body (zero value: bytes.Reader)
	ViaBody  bool // reshead: the client reads it with ReadBody instead of ReadResponseHead
	Eager    bool // the receiver reads right after the write (otherwise later, in order)
	Desc     string
}

func c30BodyTypeName(bt quicstreamheader.BodyType) string {
	switch bt {
	case quicstreamheader.EmptyBodyType:
		return "empty"
	case quicstreamheader.FixedLengthBodyType:
		return "fixed"
	case quicstreamheader.StreamBodyType:
		return "stream"
	default:
		return fmt.Sprintf("unknown(%d)", bt[0])
	}
}

func genC30Hash() *rapid.Generator[util.Hash] {
	return rapid.Custom(func(t *rapid.T) util.Hash {
		return valuehash.NewSHA256(rapid.SliceOfN(rapid.Byte(), 0, 8).Draw(t, "hashseed"))
	})
}

var c30ClientIDs = []string{"", "", "client-a", "0", "클라이언트", `q"uo\te`, strings.Repeat("x", 300)}

var c30ReqKinds = []string{
	"operation", "send-operation", "request-proposal", "proposal", "last-suffrage-proof", "suffrage-proof", "last-blockmap",
	"blockmap", "block-item", "block-item-files", "node-challenge", "suffrage-node-conninfo", "sync-source-conninfo", "state",
	"exists-instate-operation", "node-info", "send-ballots", "set-allow-consensus", "stream-operations", "start-handover",
	"check-handover", "ask-handover", "cancel-handover", "handover-message", "check-handover-x",
	"callback-broadcast", "ensure-broadcast", "read-node", "write-node",
}

// genC30Req builds one of the real request headers through its exported constructor, with valid field values
// (clients call header.IsValid before WriteRequestHead; the harness asserts that too).
func genC30Req(env *c30Env) *rapid.Generator[c30Msg] {
	return rapid.Custom(func(t *rapid.T) c30Msg {
		kind := rapid.SampledFrom(c30ReqKinds).Draw(t, "reqKind")
		cid := rapid.SampledFrom(c30ClientIDs).Draw(t, "clientID")
		height := func() base.Height {
			return base.Height(rapid.SampledFrom([]int64{0, 1, 33, 1 << 33, math.MaxInt64 - 1}).Draw(t, "height"))
		}
		hashOrNil := func() util.Hash {
			if rapid.Bool().Draw(t, "nilhash") {
				return nil
			}

			return genC30Hash().Draw(t, "hash")
		}
		key := func() base.Publickey { return env.keys[rapid.IntRange(0, len(env.keys)-1).Draw(t, "key")].Publickey() }
		addr := func() base.Address { return env.addrs[rapid.IntRange(0, len(env.addrs)-1).Draw(t, "addr")] }
		ci := func() quicstream.ConnInfo {
			return quicstream.MustConnInfo(&net.UDPAddr{
				IP:   net.IPv4(127, 0, 0, byte(rapid.IntRange(1, 9).Draw(t, "ip"))),
				Port: rapid.IntRange(1, 65535).Draw(t, "port"),
			}, rapid.Bool().Draw(t, "tlsinsecure"))
		}

		var h quicstreamheader.RequestHeader

		switch kind {
		case "operation":
			x := isaacnetwork.NewOperationRequestHeader(genC30Hash().Draw(t, "hash"))
			x.SetClientID(cid)
			h = x
		case "send-operation":
			x := isaacnetwork.NewSendOperationRequestHeader()
			x.SetClientID(cid)
			h = x
		case "request-proposal":
			x := isaacnetwork.NewRequestProposalRequestHeader(
				base.NewPoint(height()+1, base.Round(rapid.Uint64Range(0, 5).Draw(t, "round"))), addr(), genC30Hash().Draw(t, "hash"))
			x.SetClientID(cid)
			h = x
		case "proposal":
			x := isaacnetwork.NewProposalRequestHeader(genC30Hash().Draw(t, "hash"))
			x.SetClientID(cid)
			h = x
		case "last-suffrage-proof":
			x := isaacnetwork.NewLastSuffrageProofRequestHeader(hashOrNil())
			x.SetClientID(cid)
			h = x
		case "suffrage-proof":
			x := isaacnetwork.NewSuffrageProofRequestHeader(height())
			x.SetClientID(cid)
			h = x
		case "last-blockmap":
			x := isaacnetwork.NewLastBlockMapRequestHeader(hashOrNil())
			x.SetClientID(cid)
			h = x
		case "blockmap":
			x := isaacnetwork.NewBlockMapRequestHeader(height())
			x.SetClientID(cid)
			h = x
		case "block-item":
			x := isaacnetwork.NewBlockItemRequestHeader(height(), rapid.SampledFrom([]base.BlockItemType{
				base.BlockItemMap, base.BlockItemProposal, base.BlockItemOperations, base.BlockItemOperationsTree,
				base.BlockItemStates, base.BlockItemStatesTree, base.BlockItemVoteproofs,
			}).Draw(t, "item"))
			x.SetClientID(cid)
			h = x
		case "block-item-files":
			x := isaacnetwork.NewBlockItemFilesRequestHeader(height(), key())
			x.SetClientID(cid)
			h = x
		case "node-challenge":
			input := rapid.SliceOfN(rapid.Byte(), 1, 40).Draw(t, "input")

			var x isaacnetwork.NodeChallengeRequestHeader
			if rapid.Bool().Draw(t, "withMe") {
				x = isaacnetwork.NewNodeChallengeRequestHeader(input, addr(), key())
			} else {
				x = isaacnetwork.NewNodeChallengeRequestHeader(input, nil, nil)
			}

			x.SetClientID(cid)
			h = x
		case "suffrage-node-conninfo":
			x := isaacnetwork.NewSuffrageNodeConnInfoRequestHeader()
			x.SetClientID(cid)
			h = x
		case "sync-source-conninfo":
			x := isaacnetwork.NewSyncSourceConnInfoRequestHeader()
			x.SetClientID(cid)
			h = x
		case "state":
			x := isaacnetwork.NewStateRequestHeader(rapid.SampledFrom([]string{"k", "suffrage", "a/b c", "키"}).Draw(t, "statekey"), hashOrNil())
			x.SetClientID(cid)
			h = x
		case "exists-instate-operation":
			x := isaacnetwork.NewExistsInStateOperationRequestHeader(genC30Hash().Draw(t, "hash"))
			x.SetClientID(cid)
			h = x
		case "node-info":
			x := isaacnetwork.NewNodeInfoRequestHeader()
			x.SetClientID(cid)
			h = x
		case "send-ballots":
			x := isaacnetwork.NewSendBallotsHeader()
			x.SetClientID(cid)
			h = x
		case "set-allow-consensus":
			x := isaacnetwork.NewSetAllowConsensusHeader(rapid.Bool().Draw(t, "allow"))
			x.SetClientID(cid)
			h = x
		case "stream-operations":
			var off []byte
			if rapid.Bool().Draw(t, "withOffset") {
				off = rapid.SliceOfN(rapid.Byte(), 1, 20).Draw(t, "offset")
			}

			x := isaacnetwork.NewStreamOperationsHeader(off)
			x.SetClientID(cid)
			h = x
		case "start-handover":
			x := isaacnetwork.NewStartHandoverHeader(ci(), addr(), key())
			x.SetClientID(cid)
			h = x
		case "check-handover":
			x := isaacnetwork.NewCheckHandoverHeader(ci(), addr(), key())
			x.SetClientID(cid)
			h = x
		case "ask-handover":
			x := isaacnetwork.NewAskHandoverHeader(ci(), addr())
			x.SetClientID(cid)
			h = x
		case "cancel-handover":
			x := isaacnetwork.NewCancelHandoverHeader(key())
			x.SetClientID(cid)
			h = x
		case "handover-message":
			x := isaacnetwork.NewHandoverMessageHeader()
			x.SetClientID(cid)
			h = x
		case "check-handover-x":
			x := isaacnetwork.NewCheckHandoverXHeader(addr())
			x.SetClientID(cid)
			h = x
		case "callback-broadcast":
			h = quicmemberlist.NewCallbackBroadcastMessageHeader(
				rapid.SampledFrom([]string{"id", "3f1c", "아이디"}).Draw(t, "bid"), quicstream.HashPrefix("c30-callback"))
		case "ensure-broadcast":
			i := rapid.IntRange(0, len(env.keys)-1).Draw(t, "signer")

			x, err := quicmemberlist.NewEnsureBroadcastMessageHeader(
				rapid.SampledFrom([]string{"id", "3f1c"}).Draw(t, "bid"), quicstream.HashPrefix("c30-ensure"),
				env.addrs[i], env.keys[i], base.NetworkID("c30 network"))
			if err != nil {
				t.Fatalf("harness: ensure broadcast header: %v", err)
			}

			h = x
		case "read-node":
			x := launch.NewReadNodeHeader(rapid.SampledFrom([]string{"states.allow_consensus", "k"}).Draw(t, "nodekey"), key())
			x.SetClientID(cid)
			h = x
		case "write-node":
			x := launch.NewWriteNodeHeader(rapid.SampledFrom([]string{"states.allow_consensus", "k"}).Draw(t, "nodekey"), key())
			x.SetClientID(cid)
			h = x
		default:
			t.Fatalf("harness: unknown request kind %q", kind)
		}

		if err := h.IsValid(nil); err != nil {
			t.Fatalf("harness: generated request header %s is invalid: %v", kind, err)
		}

		return c30Msg{Dir: 0, Kind: "reqhead", Req: h, Eager: true, Desc: "req:" + kind}
	})
}

var c30ErrTexts = []string{"not found", "hehe", `with "quotes" and \ backslash`, "줄\n바꿈", strings.Repeat("long ", 200)}

func genC30Res() *rapid.Generator[c30Msg] {
	return rapid.Custom(func(t *rapid.T) c30Msg {
		ok := rapid.Bool().Draw(t, "ok")

		var rerr error
		if rapid.IntRange(0, 2).Draw(t, "witherr") == 0 {
			rerr = errors.New(rapid.SampledFrom(c30ErrTexts).Draw(t, "errtext"))
		}

		var (
			h    quicstreamheader.ResponseHeader
			kind string
		)

		switch rapid.IntRange(0, 3).Draw(t, "resKind") {
		case 0, 1:
			kind = "default"
			h = quicstreamheader.NewDefaultResponseHeader(ok, rerr)
		case 2:
			kind = "ask-handover"
			h = isaacnetwork.NewAskHandoverResponseHeader(ok, rerr, rapid.SampledFrom([]string{"id-1", "broker-33", "아이디"}).Draw(t, "id"))
		default:
			kind = "block-item"

			var u url.URL
			if s := rapid.SampledFrom([]string{"", "file:///a/b.json", "https://example.com:8443/x/y?z=1"}).Draw(t, "uri"); s != "" {
				p, err := url.Parse(s)
				if err != nil {
					t.Fatalf("harness: url: %v", err)
				}

				u = *p
			}

			h = isaacnetwork.NewBlockItemResponseHeader(ok, rerr, u, rapid.SampledFrom([]string{"", "gz"}).Draw(t, "compress"))
		}

		if err := h.IsValid(nil); err != nil {
			t.Fatalf("harness: generated response header %s is invalid: %v", kind, err)
		}

		return c30Msg{
			Dir: 1, Kind: "reshead", Res: h, ViaBody: rapid.Bool().Draw(t, "viaReadBody"),
			Desc: fmt.Sprintf("res:%s(ok=%v,err=%v)", kind, ok, rerr != nil),
		}
	})
}

func c30Fill(n int, seed byte) []byte {
	b := make([]byte, n)
	for i := range b {
		b[i] = seed + byte(i*7) ^ byte(i>>8)
	}

	return b
}

func genC30Body(allowStream bool) *rapid.Generator[c30Msg] {
	return rapid.Custom(func(t *rapid.T) c30Msg {
		m := c30Msg{Kind: "body"}

		kinds := []quicstreamheader.BodyType{
			quicstreamheader.EmptyBodyType, quicstreamheader.FixedLengthBodyType, quicstreamheader.FixedLengthBodyType,
		}
		if allowStream {
			kinds = append(kinds, quicstreamheader.StreamBodyType)
		}

		m.BodyType = rapid.SampledFrom(kinds).Draw(t, "bodyType")

		if m.BodyType != quicstreamheader.EmptyBodyType {
			switch rapid.IntRange(0, 11).Draw(t, "sizeClass") {
			case 10:
				// around the 32 KiB buffer of the writer's copy loop, and the sizes of the fixed sweep
				m.Body = c30Fill(rapid.SampledFrom([]int{33, 32767, 32768, 32769}).Draw(t, "n32k"), rapid.Byte().Draw(t, "fill"))
			case 11:
				// several copy buffers
				m.Body = c30Fill(rapid.SampledFrom([]int{2*32768 + 1, 3 * 32768, 3*32768 + 33, 100000}).Draw(t, "nbufs"), rapid.Byte().Draw(t, "fill"))
			case 0, 1:
				m.Body = []byte{}
			case 2:
				m.Body = []byte{rapid.SampledFrom([]byte{0, 1, 2, 3, '{', 0xff}).Draw(t, "b")} // looks like a type byte
			case 3, 4, 5:
				m.Body = rapid.SliceOfN(rapid.Byte(), 2, 40).Draw(t, "bs")
			case 6:
				m.Body = rapid.SliceOfN(rapid.Byte(), 8, 8).Draw(t, "bs8") // looks like a length word
			case 7, 8:
				m.Body = c30Fill(rapid.IntRange(100, 3000).Draw(t, "n"), rapid.Byte().Draw(t, "fill"))
			default:
				m.Body = c30Fill(rapid.SampledFrom([]int{65535, 65536, 65537}).Draw(t, "n64k"), rapid.Byte().Draw(t, "fill"))
			}
		}

		if len(m.Body) == 0 && m.BodyType != quicstreamheader.StreamBodyType {
			m.NilBody = rapid.Bool().Draw(t, "nilReader")
		}

		if m.BodyType != quicstreamheader.EmptyBodyType && !m.NilBody {
			m.Rd = genC30ReaderKind().Draw(t, "reader")
		}

		m.Eager = rapid.Bool().Draw(t, "eager")
		m.Desc = fmt.Sprintf("body:%s/%d", c30BodyTypeName(m.BodyType), len(m.Body))

		if !m.Rd.plain() {
			m.Desc += "@" + m.Rd.String()
		}

		return m
	})
}

type c30Transcript struct {
	Msgs []c30Msg
	Ch   [2]c30Chunking // chunking of the client->handler and handler->client streams
}

func (tr c30Transcript) desc() string {
	ss := make([]string, len(tr.Msgs))
	for i, m := range tr.Msgs {
		d := ">"
		if m.Dir == 1 {
			d = "<"
		}

		ss[i] = d + m.Desc
		if m.Kind == "reshead" && m.ViaBody {
			ss[i] += "@ReadBody"
		}

		if !m.Eager {
			ss[i] += "~"
		}
	}

	return strings.Join(ss, " ")
}

// genC30Transcript: request head first, then up to maxMore further messages: bodies in either direction and response
// heads from the handler; nothing is written in a direction after a stream body (WriteBody closes the writer).
func genC30Transcript(env *c30Env, maxMore int) *rapid.Generator[c30Transcript] {
	return rapid.Custom(func(t *rapid.T) c30Transcript {
		tr := c30Transcript{}
		tr.Ch[0] = genC30Chunking().Draw(t, "chunkC2H")
		tr.Ch[1] = genC30Chunking().Draw(t, "chunkH2C")
		tr.Msgs = append(tr.Msgs, genC30Req(env).Draw(t, "req"))

		closed := [2]bool{}
		n := rapid.IntRange(0, maxMore).Draw(t, "more")

		for i := 0; i < n; i++ {
			dir := rapid.IntRange(0, 1).Draw(t, "dir")
			if closed[dir] {
				dir = 1 - dir
			}

			if closed[dir] {
				break
			}

			var m c30Msg

			if dir == 1 && rapid.IntRange(0, 2).Draw(t, "isHead") == 0 {
				m = genC30Res().Draw(t, "res")
				m.Eager = rapid.Bool().Draw(t, "eager")
			} else {
				m = genC30Body(true).Draw(t, "body")
			}

			m.Dir = dir

			if m.Kind == "body" && m.BodyType == quicstreamheader.StreamBodyType {
				closed[dir] = true
			}

			tr.Msgs = append(tr.Msgs, m)
		}

		return tr
	})
}

// ---------------------------------------------------------------- comparing headers

func c30HeaderBytes(t ev.TB, r *ev.Rec, env *c30Env, h interface{}, what string) (b []byte, err error) {
	c30NoPanic(t, r, "Marshal "+what, func() {
		b, err = env.enc.Marshal(h)
	})

	return b, err
}

// c30SameHeader: equality by re-encoding plus the exported accessors every header has. Returns a short cause
// (part of the root-cause signature) and a description; both empty when equal.
func c30SameHeader(t ev.TB, r *ev.Rec, env *c30Env, sent, got quicstreamheader.Header) (cause, detail string) {
	if got == nil {
		return "nil", "nil header"
	}

	sb, err := c30HeaderBytes(t, r, env, sent, "sent header")
	if err != nil {
		t.Fatalf("harness: marshal sent header: %v", err)
	}

	gb, err := c30HeaderBytes(t, r, env, got, "received header")
	if err != nil {
		return "not-encodable", fmt.Sprintf("received header cannot be encoded: %v", err)
	}

	if fmt.Sprintf("%T", sent) != fmt.Sprintf("%T", got) {
		return "type-differs", fmt.Sprintf("header type differs: sent %T received %T", sent, got)
	}

	if !bytes.Equal(sb, gb) {
		return "reencoded-differs", fmt.Sprintf("re-encoded header differs: sent %s received %s", c30Short(sb), c30Short(gb))
	}

	type clientIDer interface{ ClientID() string }

	if a, ok := sent.(clientIDer); ok {
		if b, ok := got.(clientIDer); !ok || a.ClientID() != b.ClientID() {
			return "clientid-lost", fmt.Sprintf("client id differs: sent %q, received %q (%T, wire bytes %s)", a.ClientID(), b.ClientID(), sent, c30Short(sb))
		}
	}

	if a, ok := sent.(quicstreamheader.ResponseHeader); ok {
		b, ok := got.(quicstreamheader.ResponseHeader)
		if !ok {
			return "type-differs", "received header is not a response header"
		}

		if a.OK() != b.OK() {
			return "ok-differs", fmt.Sprintf("ok differs: sent %v received %v", a.OK(), b.OK())
		}

		switch {
		case (a.Err() == nil) != (b.Err() == nil):
			return "error-differs", fmt.Sprintf("error differs: sent %v received %v", a.Err(), b.Err())
		case a.Err() != nil && a.Err().Error() != b.Err().Error():
			return "error-differs", fmt.Sprintf("error text differs: sent %q received %q", a.Err(), b.Err())
		}
	}

	return "", ""
}

func c30Short(b []byte) string {
	if len(b) > 300 {
		return fmt.Sprintf("%q...(%d bytes)", b[:300], len(b))
	}

	return fmt.Sprintf("%q", b)
}

// ---------------------------------------------------------------- A. round trip

type c30Conn struct {
	streams [2]*c30Stream // [0] client->handler, [1] handler->client
	client  *quicstreamheader.ClientBroker
	handler *quicstreamheader.HandlerBroker
}

func c30NewConn(env *c30Env, ch [2]c30Chunking) *c30Conn {
	c := &c30Conn{}
	c.streams[0] = &c30Stream{ch: ch[0]}
	c.streams[1] = &c30Stream{ch: ch[1]}
	c.client = quicstreamheader.NewClientBroker(env.encs, env.enc, c.streams[1], c.streams[0])
	c.handler = quicstreamheader.NewHandlerBroker(env.encs, nil, c.streams[0], c.streams[1]) // as NewHandler does

	return c
}

// c30ReaderKind is the behaviour of the io.Reader that the writing side hands to WriteBody. Everything below is allowed
// by the io.Reader contract and done by readers real callers pass in (compress/flate, quic-go receive streams and
// testing/iotest.DataErrReader return the last chunk together with io.EOF; files, pipes and network streams return
// short reads; iotest.OneByteReader one byte per call; a zero-length read with a nil error is discouraged but legal).
// The zero value is a plain bytes.Reader ((n, nil) ... (0, io.EOF); it also offers WriteTo).
type c30ReaderKind struct {
	Name    string // "" (bytes.Reader) | whole | 1byte | short | zeros
	Cuts    []int  // size of the successive reads (cyclic); 0 = one Read that returns (0, nil); empty = as much as fits
	EOFWith bool   // the last bytes (or, for an empty body, the first call) come together with io.EOF
}

func (k c30ReaderKind) plain() bool { return k.Name == "" }

func (k c30ReaderKind) class() string {
	if k.plain() {
		return "plain"
	}

	return k.Name
}

func (k c30ReaderKind) String() string {
	if k.plain() {
		return "plain"
	}

	s := k.Name
	if len(k.Cuts) > 0 && k.Name != "1byte" {
		s += fmt.Sprint(k.Cuts)
	}

	if k.EOFWith {
		s += "+eof-with-data"
	}

	return s
}

// c30KindReader delivers data the way its kind says; it has no WriteTo, so the copy loop of the writer sees every Read.
type c30KindReader struct {
	data  []byte
	kind  c30ReaderKind
	ci    int
	done  bool // io.EOF was returned
	reads int  // Read calls
	zeros int  // (0, nil) results
}

func (rd *c30KindReader) Read(p []byte) (int, error) {
	rd.reads++

	if rd.done {
		return 0, io.EOF
	}

	if len(rd.data) == 0 {
		// an empty body, or a reader that reports the end separately
		rd.done = true

		return 0, io.EOF
	}

	if len(p) == 0 {
		return 0, nil
	}

	n := len(p)

	if len(rd.kind.Cuts) > 0 {
		k := rd.kind.Cuts[rd.ci%len(rd.kind.Cuts)]
		rd.ci++

		if k == 0 {
			rd.zeros++

			return 0, nil
		}

		if k < n {
			n = k
		}
	}

	if n > len(rd.data) {
		n = len(rd.data)
	}

	copy(p, rd.data[:n])
	rd.data = rd.data[n:]

	if len(rd.data) == 0 && rd.kind.EOFWith {
		rd.done = true

		return n, io.EOF
	}

	return n, nil
}

func c30BodyReader(m c30Msg) io.Reader {
	switch {
	case m.NilBody:
		return nil
	case m.Rd.plain():
		return bytes.NewReader(m.Body)
	default:
		return &c30KindReader{data: m.Body, kind: m.Rd}
	}
}

// genC30ReaderKind: plain (2 in 7), or a reader without WriteTo: whole reads, one byte per read, short reads (small
// cuts, or cuts around and above the 32 KiB buffer of the copy loop), short reads with zero-length reads in between;
// each with the end reported together with the last bytes or separately.
func genC30ReaderKind() *rapid.Generator[c30ReaderKind] {
	return rapid.Custom(func(t *rapid.T) c30ReaderKind {
		k := c30ReaderKind{}

		switch rapid.IntRange(0, 6).Draw(t, "readerKind") {
		case 0, 1:
			return k
		case 2:
			k.Name = "whole"
		case 3:
			k.Name, k.Cuts = "1byte", []int{1}
		case 4:
			k.Name = "short"
			k.Cuts = rapid.SliceOfN(rapid.OneOf(
				rapid.IntRange(1, 64),
				rapid.SampledFrom([]int{511, 4096, 32767, 32768, 32769, 40000}),
			), 1, 6).Draw(t, "readerCuts")
		default:
			k.Name = "zeros"
			k.Cuts = rapid.SliceOfN(rapid.IntRange(0, 9), 1, 6).Draw(t, "readerCuts")
			// progress is guaranteed: the cycle always has a positive cut, and a zero somewhere
			k.Cuts = append(k.Cuts, 0, rapid.SampledFrom([]int{1, 2, 33, 4096, 32768}).Draw(t, "readerCutLast"))
		}

		k.EOFWith = rapid.Bool().Draw(t, "readerEOFWithData")

		return k
	})
}

// c30ReaderSweepKinds / c30ReaderSweepSizes: the fixed part of the reader dimension, run in every tier.
var c30ReaderSweepSizes = []int{0, 1, 33, 32767, 32768, 32769, 3*32768 + 33}

func c30ReaderSweepKinds() (kinds []c30ReaderKind) {
	kinds = append(kinds, c30ReaderKind{})

	for _, eof := range []bool{false, true} {
		kinds = append(kinds,
			c30ReaderKind{Name: "whole", EOFWith: eof},
			c30ReaderKind{Name: "1byte", Cuts: []int{1}, EOFWith: eof},
			c30ReaderKind{Name: "short", Cuts: []int{7, 32768, 1, 4096}, EOFWith: eof},
			c30ReaderKind{Name: "zeros", Cuts: []int{0, 5, 0, 0, 32768}, EOFWith: eof},
		)
	}

	return kinds
}

func (c *c30Conn) write(t ev.TB, r *ev.Rec, m c30Msg) {
	ctx := context.Background()

	var err error

	c30NoPanic(t, r, "write "+m.Desc, func() {
		switch {
		case m.Kind == "reqhead":
			err = c.client.WriteRequestHead(ctx, m.Req)
		case m.Kind == "reshead":
			err = c.handler.WriteResponseHead(ctx, m.Res)
		case m.Dir == 0:
			err = c.client.WriteBody(ctx, m.BodyType, uint64(len(m.Body)), c30BodyReader(m))
		default:
			err = c.handler.WriteBody(ctx, m.BodyType, uint64(len(m.Body)), c30BodyReader(m))
		}
	})

	if err != nil {
		r.Violation(t, "write-failed", "writing %s failed: %v", m.Desc, err)
	}
}

// read reads message m at the receiving side and compares it with what was written.
func (c *c30Conn) read(t ev.TB, r *ev.Rec, env *c30Env, m c30Msg, trdesc string) {
	ctx := context.Background()
	in := c.streams[m.Dir]

	fail := func(sig, format string, a ...any) {
		if in.wasBlocked() {
			sig = "read-beyond-written"
		}

		r.Violation(t, sig, "%s: %s [transcript %s; chunking %s %v eofWithData=%v]", m.Desc, fmt.Sprintf(format, a...),
			trdesc, in.ch.Name, in.ch.Cuts, in.ch.EOFTog)
	}

	switch m.Kind {
	case "reqhead":
		// the 32-byte handler prefix is consumed by quicstream.PrefixHandler before the handler broker sees the stream
		var prefix quicstream.HandlerPrefix
		if _, err := io.ReadFull(in, prefix[:]); err != nil {
			fail("prefix-missing", "reading the handler prefix: %v", err)

			return
		}

		if prefix != m.Req.Handler() {
			fail("prefix-mismatch", "handler prefix on the wire %x differs from the header's %x", prefix[:4], m.Req.Handler())
		}

		var (
			got quicstreamheader.RequestHeader
			err error
		)

		c30NoPanic(t, r, "ReadRequestHead", func() { got, err = c.handler.ReadRequestHead(ctx) })

		if err != nil {
			fail("reqhead-rejected", "ReadRequestHead failed on a head written by WriteRequestHead: %v", err)

			return
		}

		if cause, d := c30SameHeader(t, r, env, m.Req, got); cause != "" {
			fail("reqhead-"+cause, "%s", d)
		}

		var verr error
		c30NoPanic(t, r, "IsValid", func() { verr = got.IsValid(nil) })

		if verr != nil {
			fail("reqhead-invalid-after-read", "received request header is not valid (the sent one is): %v", verr)
		}
	case "reshead":
		var (
			enc encoder.Encoder
			got quicstreamheader.ResponseHeader
			err error
		)

		if m.ViaBody {
			var (
				bt   quicstreamheader.BodyType
				bl   uint64
				body io.Reader
			)

			c30NoPanic(t, r, "ReadBody", func() { bt, bl, body, enc, got, err = c.client.ReadBody(ctx) })

			if err == nil && (got == nil || body != nil || bl != 0 || bt != quicstreamheader.UnknownBodyType) {
				fail("reshead-mismatch", "ReadBody on a response head returned res=%v bodyType=%s length=%d body=%v", got != nil, c30BodyTypeName(bt), bl, body != nil)

				return
			}
		} else {
			c30NoPanic(t, r, "ReadResponseHead", func() { enc, got, err = c.client.ReadResponseHead(ctx) })
		}

		if err != nil {
			fail("reshead-rejected", "reading a response head written by WriteResponseHead failed: %v", err)

			return
		}

		if enc == nil || enc.Hint().String() != env.enc.Hint().String() {
			fail("reshead-mismatch", "encoder returned with the response head is %v", enc)
		}

		if cause, d := c30SameHeader(t, r, env, m.Res, got); cause != "" {
			fail("reshead-"+cause, "%s", d)
		}
	case "body":
		var (
			bt   quicstreamheader.BodyType
			bl   uint64
			body io.Reader
			res  quicstreamheader.ResponseHeader
			err  error
		)

		c30NoPanic(t, r, "ReadBody", func() {
			if m.Dir == 0 {
				bt, bl, body, _, res, err = c.handler.ReadBody(ctx)
			} else {
				bt, bl, body, _, res, err = c.client.ReadBody(ctx)
			}
		})

		switch {
		case err != nil:
			fail("body-rejected", "ReadBody failed on a body written by WriteBody: %v", err)

			return
		case res != nil:
			fail("body-mismatch", "ReadBody returned a response header for a body")

			return
		case bt != m.BodyType:
			fail("body-type-mismatch", "body type read %s, written %s", c30BodyTypeName(bt), c30BodyTypeName(m.BodyType))

			return
		}

		if m.BodyType == quicstreamheader.FixedLengthBodyType && bl != uint64(len(m.Body)) {
			fail("body-length-mismatch", "fixed body length read %d, written %d", bl, len(m.Body))
		}

		if m.BodyType != quicstreamheader.FixedLengthBodyType && bl != 0 {
			fail("body-length-mismatch", "%s body reports length %d", c30BodyTypeName(bt), bl)
		}

		var gotb []byte

		if body != nil {
			var rerr error
			c30NoPanic(t, r, "read body", func() { gotb, rerr = io.ReadAll(body) })

			if rerr != nil {
				fail("body-content-mismatch", "reading the %s body failed after %d of %d bytes: %v", c30BodyTypeName(bt), len(gotb), len(m.Body), rerr)

				return
			}
		} else if m.BodyType != quicstreamheader.EmptyBodyType && len(m.Body) > 0 {
			fail("body-content-mismatch", "nil body reader for a %s body of %d bytes", c30BodyTypeName(bt), len(m.Body))

			return
		}

		if !bytes.Equal(gotb, m.Body) {
			fail("body-content-mismatch", "%s body: read %d bytes, written %d bytes (first difference at %d)",
				c30BodyTypeName(bt), len(gotb), len(m.Body), c30FirstDiff(gotb, m.Body))
		}
	}

	if in.wasBlocked() {
		fail("read-beyond-written", "the reader asked for more bytes than the peer had written for this message")
	}
}

func c30FirstDiff(a, b []byte) int {
	for i := 0; i < len(a) && i < len(b); i++ {
		if a[i] != b[i] {
			return i
		}
	}

	return min(len(a), len(b))
}

func c30RoundTrip(t ev.TB, r *ev.Rec, env *c30Env, tr c30Transcript) {
	c := c30NewConn(env, tr.Ch)
	desc := tr.desc() + env.note

	pending := [2][]int{}

	drain := func(dir int) {
		for _, i := range pending[dir] {
			c.read(t, r, env, tr.Msgs[i], desc)
		}

		pending[dir] = nil
	}

	for i, m := range tr.Msgs {
		c.write(t, r, m)
		pending[m.Dir] = append(pending[m.Dir], i)

		if i == 0 || m.Eager {
			drain(m.Dir)
		}
	}

	drain(0)
	drain(1)

	for dir, s := range c.streams {
		if s.badWrite {
			t.Fatalf("harness: write after close in direction %d: %s", dir, desc)
		}

		if n := s.left(); n != 0 {
			r.Violation(t, "bytes-left-unread", "%d of %d written bytes were not consumed by the reader in direction %d [transcript %s]", n, s.written, dir, desc)
		}
	}
}

// ---------------------------------------------------------------- reference walker (format knowledge, harness only)

// c30Walk walks a one-direction byte stream (without the handler prefix) by the wire format:
//   head: type(1)=0x01|0x03, len(8) enc hint, len(8) header;  body: type(1)=0x02, kind(1): 0x01 | 0x02 len(8) bytes | 0x03 rest.
// It returns the offsets of type bytes, of length words, and of header-bytes regions. Used only to aim mutations and
// to keep fuzz inputs from requesting giant buffers; never as an oracle.
type c30Layout struct {
	TypeBytes []int
	LenWords  []int
	LenIsHead []bool   // the length word sizes a buffer that the reader allocates (hint / header), not a lazy body
	Headers   [][2]int // [start,end) of header bytes
	Hints     [][2]int // [start,end) of encoder hint bytes
	MaxAlloc  uint64   // largest buffer a reader would allocate for hint/header bytes
}

func c30Walk(b []byte) (l c30Layout) {
	o := 0

	lenAt := func(isHead bool) (uint64, bool) {
		if o+8 > len(b) {
			return 0, false
		}

		v := binary.BigEndian.Uint64(b[o:])
		l.LenWords = append(l.LenWords, o)
		l.LenIsHead = append(l.LenIsHead, isHead)
		o += 8

		if isHead && v > l.MaxAlloc && v <= math.MaxInt32 {
			l.MaxAlloc = v
		}

		return v, true
	}

	for o < len(b) {
		l.TypeBytes = append(l.TypeBytes, o)
		dt := b[o]
		o++

		switch dt {
		case 0x01, 0x03:
			for k := 0; k < 2; k++ {
				v, ok := lenAt(true)
				if !ok || v > uint64(len(b)-o) {
					return l
				}

				if k == 0 {
					l.Hints = append(l.Hints, [2]int{o, o + int(v)})
				} else {
					l.Headers = append(l.Headers, [2]int{o, o + int(v)})
				}

				o += int(v)
			}
		case 0x02:
			if o >= len(b) {
				return l
			}

			l.TypeBytes = append(l.TypeBytes, o)
			bt := b[o]
			o++

			switch bt {
			case 0x01:
			case 0x02:
				v, ok := lenAt(false)
				if !ok || v > uint64(len(b)-o) {
					return l
				}

				o += int(v)
			default:
				return l
			}
		default:
			return l
		}
	}

	return l
}

// ---------------------------------------------------------------- B. hostile peer

type c30HostileResult struct {
	Msgs    int    // messages returned without error
	Err     string // first error ("" when the stream was consumed)
	Classes []string
}

// c30CheckHeader: a header handed out without error must be usable the way the next layer uses it: IsValid (what
// quicstreamheader.NewHandler calls first), OK/Err for responses, and encodable when valid.
func c30CheckHeader(t ev.TB, r *ev.Rec, env *c30Env, h quicstreamheader.Header, what string, res *c30HostileResult) {
	if h == nil {
		r.Violation(t, "nil-header-without-error", "%s returned a nil header and no error", what)

		return
	}

	var verr error
	c30NoPanic(t, r, what+": header.IsValid", func() { verr = h.IsValid(nil) })

	if rh, ok := h.(quicstreamheader.ResponseHeader); ok {
		c30NoPanic(t, r, what+": response header accessors", func() {
			_ = rh.OK()
			if e := rh.Err(); e != nil {
				_ = e.Error()
			}
		})
	}

	if rh, ok := h.(quicstreamheader.RequestHeader); ok {
		c30NoPanic(t, r, what+": request header accessors", func() { _ = rh.Handler() })
	}

	if verr != nil {
		res.Classes = append(res.Classes, "hostile:header-invalid-by-IsValid")

		return
	}

	b, err := c30HeaderBytes(t, r, env, h, what)
	if err != nil || len(b) == 0 {
		r.Violation(t, "valid-header-not-encodable", "%s returned a header (%T) that passes IsValid but cannot be encoded: %v", what, h, err)
	}
}

// c30CheckBody consumes and checks a body result. Returns false when the stream is finished.
func c30CheckBody(
	t ev.TB, r *ev.Rec, env *c30Env, what string,
	bt quicstreamheader.BodyType, bl uint64, body io.Reader, enc encoder.Encoder, rh quicstreamheader.ResponseHeader,
	inputLen int, res *c30HostileResult,
) bool {
	if rh != nil {
		if body != nil || bl != 0 || bt != quicstreamheader.UnknownBodyType {
			r.Violation(t, "head-and-body-mixed", "%s returned a response header together with body type %s length %d", what, c30BodyTypeName(bt), bl)
		}

		if enc == nil {
			r.Violation(t, "nil-encoder-without-error", "%s returned a response header without its encoder", what)
		}

		c30CheckHeader(t, r, env, rh, what, res)

		return true
	}

	var n int64

	consume := func() {
		if body == nil {
			return
		}

		var rerr error

		c30NoPanic(t, r, what+": read body", func() { n, rerr = io.Copy(io.Discard, body) })

		_ = rerr // a read error while consuming the lazy body is an error outcome

		if n > int64(inputLen) {
			r.Violation(t, "body-longer-than-input", "%s: the body reader produced %d bytes from a %d byte stream", what, n, inputLen)
		}
	}

	switch bt {
	case quicstreamheader.EmptyBodyType:
		consume()

		if bl != 0 || n != 0 {
			r.Violation(t, "empty-body-with-content", "%s returned an empty body with length %d and %d readable bytes", what, bl, n)
		}

		res.Classes = append(res.Classes, "hostile:body-empty")
	case quicstreamheader.FixedLengthBodyType:
		if body == nil {
			r.Violation(t, "nil-body-without-error", "%s returned a fixed-length body (length %d) with a nil reader", what, bl)

			return false
		}

		consume()

		switch {
		case uint64(n) > bl:
			r.Violation(t, "fixed-body-overrun", "%s: fixed-length body declared %d bytes but the reader produced %d", what, bl, n)
		case uint64(n) < bl:
			res.Classes = append(res.Classes, "hostile:fixed-body-short(not judged)")
		default:
			res.Classes = append(res.Classes, "hostile:body-fixed")
		}
	case quicstreamheader.StreamBodyType:
		if body == nil {
			r.Violation(t, "nil-body-without-error", "%s returned a stream body with a nil reader", what)

			return false
		}

		consume()

		if bl != 0 {
			r.Violation(t, "stream-body-with-length", "%s returned a stream body with length %d", what, bl)
		}

		res.Classes = append(res.Classes, "hostile:body-stream")

		return false // a stream body runs to the end of the stream
	default:
		r.Violation(t, "unknown-body-without-error", "%s returned neither an error, a response header nor a known body type (type byte %d)", what, bt[0])

		return false
	}

	return true
}

const (
	c30MaxHostileMsgs = 8
	c30BigAlloc       = 1 << 26 // the reader allocates (several times) what a hint/header length word declares before reading
)

// c30Hostile feeds raw (the complete input of a closed stream) to a fresh reader. side 0: handler broker
// (ReadRequestHead, then ReadBody...); side 1: client broker (ReadResponseHead or ReadBody per bit of pattern).
func c30Hostile(t ev.TB, r *ev.Rec, env *c30Env, side int, raw []byte, ch c30Chunking, pattern uint) (res c30HostileResult) {
	ctx := context.Background()
	in := &c30Stream{ch: ch, buf: append([]byte(nil), raw...), closed: true}
	out := &c30Stream{}

	if c30Walk(raw).MaxAlloc <= c30MaxDeclared {
		in.maxRead = c30MaxReadBuf // never reached unless the walker is wrong about what the reader reads
	}

	defer func() {
		if in.guarded {
			res.Classes = append(res.Classes, "guard:giant-read-buffer")
		}
	}()

	// every message names the input, so a reported violation is self-contained
	where := fmt.Sprintf(" [side %d, chunking %s%v, %d-byte stream %s]%s", side, ch.Name, ch.Cuts, len(raw), c30Short(raw), env.note)

	seterr := func(err error) {
		res.Err = err.Error()
		if len(res.Err) > 120 {
			res.Err = res.Err[:120]
		}
	}

	if side == 0 {
		b := quicstreamheader.NewHandlerBroker(env.encs, nil, in, out)

		var (
			h   quicstreamheader.RequestHeader
			err error
		)

		c30NoPanic(t, r, "ReadRequestHead"+where, func() { h, err = b.ReadRequestHead(ctx) })

		if err != nil {
			seterr(err)

			return res
		}

		c30CheckHeader(t, r, env, h, "ReadRequestHead"+where, &res)

		if b.Encoder == nil {
			r.Violation(t, "nil-encoder-without-error", "ReadRequestHead returned a header but left the broker without encoder%s", where)
		}

		res.Msgs++

		for res.Msgs < c30MaxHostileMsgs {
			var (
				bt   quicstreamheader.BodyType
				bl   uint64
				body io.Reader
				enc  encoder.Encoder
				rh   quicstreamheader.ResponseHeader
			)

			c30NoPanic(t, r, "handler ReadBody"+where, func() { bt, bl, body, enc, rh, err = b.ReadBody(ctx) })

			if err != nil {
				seterr(err)

				return res
			}

			res.Msgs++

			if !c30CheckBody(t, r, env, "handler ReadBody"+where, bt, bl, body, enc, rh, len(raw), &res) {
				return res
			}
		}

		return res
	}

	b := quicstreamheader.NewClientBroker(env.encs, env.enc, in, out)

	for res.Msgs < c30MaxHostileMsgs {
		var (
			bt   quicstreamheader.BodyType
			bl   uint64
			body io.Reader
			enc  encoder.Encoder
			rh   quicstreamheader.ResponseHeader
			err  error
		)

		if pattern&(1<<uint(res.Msgs)) == 0 {
			c30NoPanic(t, r, "ReadResponseHead"+where, func() { enc, rh, err = b.ReadResponseHead(ctx) })

			if err != nil {
				seterr(err)

				return res
			}

			res.Msgs++

			if rh == nil || enc == nil {
				r.Violation(t, "nil-header-without-error", "ReadResponseHead returned header=%v encoder=%v and no error%s", rh != nil, enc != nil, where)

				return res
			}

			c30CheckHeader(t, r, env, rh, "ReadResponseHead"+where, &res)

			continue
		}

		c30NoPanic(t, r, "client ReadBody"+where, func() { bt, bl, body, enc, rh, err = b.ReadBody(ctx) })

		if err != nil {
			seterr(err)

			return res
		}

		res.Msgs++

		if !c30CheckBody(t, r, env, "client ReadBody"+where, bt, bl, body, enc, rh, len(raw), &res) {
			return res
		}
	}

	return res
}

// c30Record writes the bytes one side of a transcript produces (real writers; used as input material only).
// side 0: the client->handler stream without the 32-byte handler prefix; side 1: the handler->client stream.
// readPattern is the bit pattern of read calls a client needs for the side-1 stream.
func c30Record(t ev.TB, r *ev.Rec, env *c30Env, tr c30Transcript, side int) (raw []byte, readPattern uint, nmsgs int) {
	c := c30NewConn(env, [2]c30Chunking{})

	for _, m := range tr.Msgs {
		c.write(t, r, m)

		if m.Kind == "reqhead" {
			// the handler has to see the request head before it can write a response head
			var prefix quicstream.HandlerPrefix
			if _, err := io.ReadFull(c.streams[0], prefix[:]); err != nil {
				t.Fatalf("harness: prefix: %v", err)
			}

			if side == 0 {
				raw = append(raw, c.streams[0].buf...)
			}

			if _, err := c.handler.ReadRequestHead(context.Background()); err != nil {
				r.Violation(t, "reqhead-rejected", "ReadRequestHead failed on a head written by WriteRequestHead: %v", err)
			}

			if side == 0 {
				nmsgs++
			}

			continue
		}

		if m.Dir != side {
			continue
		}

		if side == 1 && (m.Kind == "body" || m.ViaBody) {
			readPattern |= 1 << uint(nmsgs)
		}

		nmsgs++
	}

	raw = append(raw, c.streams[side].buf...)

	return raw, readPattern, nmsgs
}

var c30HostileLens = []uint64{
	0, 1, 2, 7, 8, 255, 1 << 15, 1 << 16, 1 << 18, 1 << 31, 1<<31 + 1, 1 << 32, 1<<63 - 1, 1 << 63, 1<<63 + 1, ^uint64(0) - 7, ^uint64(0),
}

var c30HostileJSON = []string{
	``, ` `, `null`, `{}`, `[]`, `""`, `0`, `true`, `{"_hint":""}`, `{"_hint":null}`, `{"_hint":0}`, `{"_hint":"x"}`, `{"_hint":"-v0.0.1"}`,
	`{"_hint":"operation-header-v0.0.1"`, `{"_hint":"operation-header-v9.9.9"}`, `{"_hint":"operation-header-v0.0.1","operation":1}`,
	`{"_hint":["operation-header-v0.0.1"]}`, "\x00\x01\x02", `{"_hint":"json-encoder-v0.0.1"}`,
}

var c30HostileValues = []string{
	`null`, `""`, `"x"`, `0`, `-1`, `1.5`, `18446744073709551616`, `true`, `[]`, `{}`, `[null]`, `{"_hint":"x"}`, `"sas"`, `"mpu"`, `"-"`,
	`":0"`, `"localhost:1#tls_insecure"`, `"\u0000"`, `[[]]`,
}

var c30HostileEncHints = []string{
	"", " ", "json-encoder-v0.0.1 ", "json-encoder-v9.9.9", "json-encoder-v0.0.2", "json-encoder", "xml-encoder-v0.0.1", "-v0.0.1", "v0.0.1",
	"json-encoder-v0.0.1-v0.0.1", "\x00", strings.Repeat("j", 300),
}

// c30Reframe replaces region [a,b) that is preceded by its 8-byte length word with nb (length word rewritten).
func c30Reframe(raw []byte, reg [2]int, nb []byte) []byte {
	out := append([]byte(nil), raw[:reg[0]-8]...)
	out = binary.BigEndian.AppendUint64(out, uint64(len(nb)))
	out = append(out, nb...)

	return append(out, raw[reg[1]:]...)
}

// c30MutateJSON changes one field of a JSON object (or its hint) to a hostile value, keeping it syntactically valid.
func c30MutateJSON(t *rapid.T, env *c30Env, b []byte) ([]byte, string) {
	var m map[string]json.RawMessage
	if err := json.Unmarshal(b, &m); err != nil || len(m) == 0 {
		return []byte(rapid.SampledFrom(c30HostileJSON).Draw(t, "json")), "json-const"
	}

	keys := make([]string, 0, len(m))
	for k := range m {
		keys = append(keys, k)
	}

	sort.Strings(keys)

	switch rapid.IntRange(0, 5).Draw(t, "jsonMut") {
	case 0:
		k := rapid.SampledFrom(keys).Draw(t, "delKey")
		delete(m, k)

		nb, _ := json.Marshal(m)

		return nb, "del:" + k
	case 1:
		ht := rapid.SampledFrom(env.hints).Draw(t, "otherHint")
		m["_hint"] = json.RawMessage(strconv.Quote(ht))

		nb, _ := json.Marshal(m)

		return nb, "hint:" + ht
	case 2:
		return []byte(rapid.SampledFrom(c30HostileJSON).Draw(t, "json")), "json-const"
	default:
		k := rapid.SampledFrom(keys).Draw(t, "setKey")
		v := rapid.SampledFrom(c30HostileValues).Draw(t, "setVal")
		m[k] = json.RawMessage(v)

		nb, _ := json.Marshal(m)

		return nb, "set:" + k + "=" + v
	}
}

type c30Mutation struct {
	Kind     string
	Name     string
	Variants [][]byte
	Valid    bool // the input is an unmodified transcript: it must be read completely
}

func c30Mutate(t *rapid.T, env *c30Env, raw []byte) c30Mutation {
	lay := c30Walk(raw)
	mode := rapid.SampledFrom([]string{"none", "truncate", "flip", "lenword", "typebyte", "header-json", "header-json", "header-json", "enc-hint", "insert"}).Draw(t, "mutation")
	cp := func() []byte { return append([]byte(nil), raw...) }

	switch {
	case mode == "none" || len(raw) == 0:
		return c30Mutation{Kind: "none", Name: "none", Variants: [][]byte{cp()}, Valid: true}
	case mode == "truncate":
		var offs []int
		if len(raw) <= 260 {
			for k := 0; k < len(raw); k++ {
				offs = append(offs, k)
			}
		} else {
			offs = rapid.SliceOfN(rapid.IntRange(0, len(raw)-1), 1, 24).Draw(t, "cuts")
		}

		m := c30Mutation{Kind: "truncate", Name: fmt.Sprintf("truncate x%d", len(offs))}
		for _, k := range offs {
			m.Variants = append(m.Variants, cp()[:k])
		}

		return m
	case mode == "flip":
		k := rapid.IntRange(0, len(raw)-1).Draw(t, "flipAt")
		x := rapid.ByteRange(1, 255).Draw(t, "xor")
		b := cp()
		b[k] ^= x

		return c30Mutation{Kind: "flip", Name: fmt.Sprintf("flip@%d^%02x", k, x), Variants: [][]byte{b}}
	case mode == "lenword" && len(lay.LenWords) > 0:
		i := rapid.IntRange(0, len(lay.LenWords)-1).Draw(t, "word")
		vals := append([]uint64(nil), c30HostileLens...)
		vals = append(vals, uint64(len(raw)), uint64(len(raw)-lay.LenWords[i]-8), uint64(len(raw)-lay.LenWords[i]-7))
		v := rapid.SampledFrom(vals).Draw(t, "len")
		b := cp()
		binary.BigEndian.PutUint64(b[lay.LenWords[i]:], v)

		return c30Mutation{Kind: "lenword", Name: fmt.Sprintf("lenword@%d=%d(head=%v)", lay.LenWords[i], v, lay.LenIsHead[i])}.with(b)
	case mode == "typebyte" && len(lay.TypeBytes) > 0:
		k := rapid.SampledFrom(lay.TypeBytes).Draw(t, "typeAt")
		v := rapid.SampledFrom([]byte{0, 1, 2, 3, 4, 0x7f, 0xff}).Draw(t, "typeVal")
		b := cp()
		b[k] = v

		return c30Mutation{Kind: "typebyte", Name: fmt.Sprintf("typebyte@%d=%d", k, v)}.with(b)
	case mode == "header-json" && len(lay.Headers) > 0:
		reg := rapid.SampledFrom(lay.Headers).Draw(t, "headerAt")
		nb, what := c30MutateJSON(t, env, raw[reg[0]:reg[1]])

		return c30Mutation{Kind: "header-json", Name: "header-json " + what}.with(c30Reframe(raw, reg, nb))
	case mode == "enc-hint" && len(lay.Hints) > 0:
		reg := rapid.SampledFrom(lay.Hints).Draw(t, "hintAt")
		nh := rapid.SampledFrom(c30HostileEncHints).Draw(t, "encHint")

		return c30Mutation{Kind: "enc-hint", Name: fmt.Sprintf("enc-hint %q", c30Short([]byte(nh)))}.with(c30Reframe(raw, reg, []byte(nh)))
	default:
		k := rapid.IntRange(0, len(raw)).Draw(t, "insertAt")
		if len(lay.TypeBytes) > 0 && rapid.Bool().Draw(t, "atBoundary") {
			k = rapid.SampledFrom(lay.TypeBytes).Draw(t, "boundary")
		}

		g := rapid.SliceOfN(rapid.Byte(), 1, 24).Draw(t, "garbage")
		b := append(append(cp()[:k:k], g...), raw[k:]...)

		return c30Mutation{Kind: "insert", Name: fmt.Sprintf("insert@%d+%d", k, len(g))}.with(b)
	}
}

func (m c30Mutation) with(b []byte) c30Mutation {
	m.Variants = [][]byte{b}

	return m
}

func c30Journal(r *ev.Rec, what string, raw []byte) {
	if len(raw) > 2048 {
		raw = raw[:2048]
	}

	r.Journal("%s %s", what, hex.EncodeToString(raw))
}

// ---------------------------------------------------------------- C. sequences of reads on one encoder set

// A hint a peer may put on the wire that hint.ParseHint accepts but that names nothing registered: an unknown type,
// or a known type with a major version nobody registered; optionally padded the way ParseHint tolerates.
var (
	c30UnknownTypes = []string{
		"bson-encoder", "xml-encoder", "msgpack-encoder", "json-encoder", "quicstream-unknown-response-header",
		"quicstream-default-response-header", "operation-header", "c30-nothing",
	}
	c30UnknownVersions = []string{"v0.0.1", "v0.9.0", "v1.0.0", "v2.3.4", "v9.9.9"}
	c30HintPads        = []string{"", "", "", "", " ", "\x00", "  \x00\x00"}
)

// c30Unregistered reports whether s parses as a hint and names nothing registered.
func c30Unregistered(env *c30Env, s string) bool {
	ht, err := hint.ParseHint(s)
	if err != nil {
		return false
	}

	return !env.registered[ht.Type().String()][ht.Version().Major()]
}

func genC30UnknownHint(env *c30Env) *rapid.Generator[string] {
	return rapid.Custom(func(t *rapid.T) string {
		var typ string

		switch rapid.IntRange(0, 3).Draw(t, "typeKind") {
		case 0:
			typ = rapid.StringMatching(`[a-z]{2,8}(-[a-z0-9]{2,8}){0,2}`).Draw(t, "type")
		case 1:
			// the type of a registered hint (only its major version will be unknown)
			s := rapid.SampledFrom(env.hints).Draw(t, "knownType")
			if ht, err := hint.ParseHint(s); err == nil {
				typ = ht.Type().String()
			}
		default:
			typ = rapid.SampledFrom(c30UnknownTypes).Draw(t, "type")
		}

		s := typ + "-" + rapid.SampledFrom(c30UnknownVersions).Draw(t, "version")
		if !c30Unregistered(env, s) {
			s = typ + "-v7.0.1"
		}

		if !c30Unregistered(env, s) {
			s = "bson-encoder-v0.0.1"
		}

		return s + rapid.SampledFrom(c30HintPads).Draw(t, "pad")
	})
}

// c30SeqItem is one byte stream of a peer, read Reads times back to back (each time by a fresh broker), or one
// complete round trip between two fresh brokers; all on the encoder set of the sequence.
type c30SeqItem struct {
	Kind    string // unknown-enc-hint | unknown-header-hint | mutated | valid | roundtrip
	Name    string
	Side    int // the reading side
	Raw     []byte
	Pattern uint
	NMsgs   int
	Valid   bool          // an unmodified stream written by the real writers: must be read completely
	Chs     []c30Chunking // one read per entry
	Tr      c30Transcript // roundtrip
}

func (it c30SeqItem) hostileHead() bool {
	return it.Kind == "unknown-enc-hint" || it.Kind == "unknown-header-hint"
}

func c30SeqDesc(seq []c30SeqItem) string {
	ss := make([]string, len(seq))

	for i, it := range seq {
		if it.Kind == "roundtrip" {
			ss[i] = fmt.Sprintf("roundtrip(%s)", it.Tr.desc())

			continue
		}

		ss[i] = fmt.Sprintf("%s x%d side=%d pattern=%d %s", it.Name, len(it.Chs), it.Side, it.Pattern, c30Short(it.Raw))
	}

	return "{" + strings.Join(ss, " | ") + "}"
}

func c30SeqFingerprint(seq []c30SeqItem) string {
	h := sha256.New()

	for _, it := range seq {
		fmt.Fprintf(h, "%s|%d|%d|%d|", it.Kind, it.Side, it.Pattern, len(it.Raw))
		_, _ = h.Write(it.Raw)

		for _, ch := range it.Chs {
			fmt.Fprintf(h, "|%s%v%v", ch.Name, ch.Cuts, ch.EOFTog)
		}

		if it.Kind == "roundtrip" {
			fmt.Fprintf(h, "|%s|%v|%v", it.Tr.desc(), it.Tr.Ch[0], it.Tr.Ch[1])
		}
	}

	return "seq|" + hex.EncodeToString(h.Sum(nil)[:12])
}

// c30SetHeaderHint rewrites the _hint of a header JSON object, keeping every other field.
func c30SetHeaderHint(b []byte, ht string) []byte {
	q, _ := json.Marshal(ht)

	var m map[string]json.RawMessage
	if err := json.Unmarshal(b, &m); err != nil || m == nil {
		return []byte(`{"_hint":` + string(q) + `}`)
	}

	m["_hint"] = json.RawMessage(q)

	nb, _ := json.Marshal(m)

	return nb
}

func c30SmallTranscript(t *rapid.T, env *c30Env, maxMore int, label string) c30Transcript {
	tr := genC30Transcript(env, maxMore).Draw(t, label)

	for i := range tr.Msgs {
		if len(tr.Msgs[i].Body) > 600 {
			tr.Msgs[i].Body = tr.Msgs[i].Body[:600]
			tr.Msgs[i].Desc += "(cut)"
		}
	}

	return tr
}

// genC30SeqItem draws one item. All material is written by brokers on the shared environment env BEFORE the sequence
// runs, so that nothing but the reads of the sequence touches the encoder set of the sequence.
func genC30SeqItem(env *c30Env, r *ev.Rec, kind string) *rapid.Generator[c30SeqItem] {
	return rapid.Custom(func(t *rapid.T) c30SeqItem {
		it := c30SeqItem{Kind: kind, Name: kind}

		if kind == "roundtrip" {
			it.Tr = c30SmallTranscript(t, env, 3, "transcript")

			return it
		}

		tr := c30SmallTranscript(t, env, 2, "material")
		it.Side = rapid.IntRange(0, 1).Draw(t, "side")

		raw, pattern, nmsgs := c30Record(t, r, env, tr, it.Side)
		lay := c30Walk(raw)

		if len(raw) == 0 || (it.hostileHead() && len(lay.Hints) == 0) {
			// the handler wrote no head in this transcript: use the client's stream (it starts with the request head)
			it.Side = 0
			raw, pattern, nmsgs = c30Record(t, r, env, tr, it.Side)
			lay = c30Walk(raw)
		}

		it.Raw, it.Pattern, it.NMsgs = raw, pattern, nmsgs

		repeats := []int{1, 1, 2}

		switch kind {
		case "valid":
			it.Valid = true
		case "unknown-enc-hint", "unknown-header-hint":
			if len(lay.Hints) == 0 || len(lay.Headers) != len(lay.Hints) {
				t.Fatalf("harness: no head in a recorded stream: %s", c30Short(raw))
			}

			// mostly the first head: then nothing else is looked up between two reads of this stream
			i := 0
			if len(lay.Hints) > 1 && rapid.IntRange(0, 3).Draw(t, "laterHead") == 0 {
				i = rapid.IntRange(1, len(lay.Hints)-1).Draw(t, "head")
			}

			ht := genC30UnknownHint(env).Draw(t, "unknownHint")

			if kind == "unknown-enc-hint" {
				it.Raw = c30Reframe(raw, lay.Hints[i], []byte(ht))
			} else {
				reg := lay.Headers[i]
				it.Raw = c30Reframe(raw, reg, c30SetHeaderHint(raw[reg[0]:reg[1]], ht))
			}

			it.Name = fmt.Sprintf("%s(%q)", kind, ht)
			repeats = []int{2, 2, 2, 3, 1}

			if rapid.IntRange(0, 3).Draw(t, "wrongSide") == 0 {
				it.Side = 1 - it.Side
			}
		case "mutated":
			mut := c30Mutate(t, env, raw)
			v := mut.Variants[rapid.IntRange(0, len(mut.Variants)-1).Draw(t, "variant")]

			if c30TooExpensive(v) {
				// giant declared lengths are left to the single deterministic case
				it.Kind, it.Name, it.Valid = "valid", "valid", true

				break
			}

			it.Raw, it.Valid = v, mut.Valid && len(mut.Variants) == 1
			it.Name = "mutated(" + mut.Name + ")"
			repeats = []int{1, 2}
		default:
			t.Fatalf("harness: unknown sequence item kind %q", kind)
		}

		if !it.Valid && it.Side == 1 && rapid.IntRange(0, 3).Draw(t, "randomPattern") == 0 {
			it.Pattern = uint(rapid.IntRange(0, 255).Draw(t, "pattern"))
		}

		n := rapid.SampledFrom(repeats).Draw(t, "reads")
		ch := genC30Chunking().Draw(t, "chunking")

		for k := 0; k < n; k++ {
			if k > 0 && rapid.Bool().Draw(t, "rechunk") {
				ch = genC30Chunking().Draw(t, "chunking")
			}

			it.Chs = append(it.Chs, ch)
		}

		return it
	})
}

var c30SeqKinds = []string{
	"unknown-enc-hint", "unknown-enc-hint", "unknown-enc-hint", "unknown-header-hint", "unknown-header-hint", "unknown-header-hint",
	"valid", "valid", "roundtrip", "mutated", "mutated",
}

// genC30Seq: 1..5 drawn items, closed by a valid stream or a round trip (the valid traffic after the hostile one).
func genC30Seq(env *c30Env, r *ev.Rec) *rapid.Generator[[]c30SeqItem] {
	return rapid.Custom(func(t *rapid.T) []c30SeqItem {
		n := rapid.IntRange(1, 5).Draw(t, "items")
		seq := make([]c30SeqItem, 0, n+1)

		for i := 0; i < n; i++ {
			kind := rapid.SampledFrom(c30SeqKinds).Draw(t, "kind")
			seq = append(seq, genC30SeqItem(env, r, kind).Draw(t, "item"))
		}

		last := rapid.SampledFrom([]string{"valid", "roundtrip"}).Draw(t, "lastKind")

		return append(seq, genC30SeqItem(env, r, last).Draw(t, "last"))
	})
}

type c30SeqResult struct {
	Reads   int
	Classes []string
}

// c30RunSeq runs the sequence on ONE fresh encoder set. Oracle: every read obeys part B (error or well-formed message,
// never a panic); an unmodified stream is read completely and a round trip reads back what was written (part A),
// whatever was read before. Whether the repeated read of the same bytes ends like the first one is counted, not judged.
func c30RunSeq(t ev.TB, r *ev.Rec, env *c30Env, seq []c30SeqItem) (out c30SeqResult) {
	senv := c30NewSeqEnv(env)
	desc := c30SeqDesc(seq)
	seen := map[string]bool{}

	class := func(c string) {
		if !seen[c] {
			seen[c] = true
			out.Classes = append(out.Classes, c)
		}
	}

	for i, it := range seq {
		if it.Kind == "roundtrip" {
			senv.note = fmt.Sprintf(" [item %d of the sequence %s read with one encoder set]", i, desc)
			c30RoundTrip(t, r, senv, it.Tr)
			class("seq:roundtrip")
			out.Reads += len(it.Tr.Msgs)

			continue
		}

		var first c30HostileResult

		for k, ch := range it.Chs {
			senv.note = fmt.Sprintf(" [read %d of item %d of the sequence %s read with one encoder set]", k, i, desc)
			c30Journal(r, fmt.Sprintf("seq item=%d read=%d %s side=%d chunk=%s%v pattern=%d", i, k, it.Kind, it.Side, ch.Name, ch.Cuts, it.Pattern), it.Raw)

			res := c30Hostile(t, r, senv, it.Side, it.Raw, ch, it.Pattern)
			out.Reads++

			if it.Valid && res.Err != "" && res.Msgs < it.NMsgs {
				r.Violation(t, "valid-stream-rejected", "an unmodified %d-message stream %s (side %d, chunking %s %v) was rejected after %d messages: %s%s",
					it.NMsgs, c30Short(it.Raw), it.Side, ch.Name, ch.Cuts, res.Msgs, res.Err, senv.note)
			}

			switch {
			case k == 0:
				first = res
			case (res.Err == "") != (first.Err == "") || res.Msgs != first.Msgs:
				class("seq:repeat-ends-differently(not judged)")
			default:
				class("seq:repeat-ends-alike")
			}

			for _, c := range res.Classes {
				class(c)
			}

			switch {
			case it.hostileHead() && res.Err != "" && res.Msgs == 0:
				class("seq:" + it.Kind + "-rejected-at-head")
			case it.hostileHead() && res.Err != "":
				class("seq:" + it.Kind + "-rejected-later")
			case it.hostileHead():
				class("seq:" + it.Kind + "-all-read")
			}
		}

		class(fmt.Sprintf("seq:%s-x%d", it.Kind, len(it.Chs)))
	}

	return out
}

// c30SeqNontrivial: a hostile head read at least twice in a row, and valid traffic after it.
func c30SeqNontrivial(seq []c30SeqItem) bool {
	for i, it := range seq {
		if it.hostileHead() && len(it.Chs) >= 2 {
			for _, later := range seq[i+1:] {
				if later.Valid || later.Kind == "roundtrip" {
					return true
				}
			}
		}
	}

	return false
}

// c30FixedMaterial: the streams of one fixed exchange (request head, response head, fixed body), written by the real
// writers on env.
func c30FixedMaterial(t ev.TB, r *ev.Rec, env *c30Env) (tr c30Transcript, raws [2][]byte, patterns [2]uint, nmsgs [2]int) {
	op := isaacnetwork.NewOperationRequestHeader(valuehash.NewSHA256([]byte("c30")))
	op.SetClientID("seq")

	tr = c30Transcript{Msgs: []c30Msg{
		{Dir: 0, Kind: "reqhead", Req: op, Eager: true, Desc: "req:operation"},
		{Dir: 1, Kind: "reshead", Res: quicstreamheader.NewDefaultResponseHeader(false, errors.New("showme")), Eager: true, Desc: "res:default(ok=false,err=true)"},
		{Dir: 1, Kind: "body", BodyType: quicstreamheader.FixedLengthBodyType, Body: []byte(`{"a":1}`), Eager: true, Desc: "body:fixed/7"},
	}}

	for side := 0; side < 2; side++ {
		raws[side], patterns[side], nmsgs[side] = c30Record(t, r, env, tr, side)
	}

	return tr, raws, patterns, nmsgs
}

var c30FixedUnknownHints = []string{
	"bson-encoder-v0.0.1", "json-encoder-v9.9.9", "json-encoder-v1.0.0", "xml-encoder-v0.0.1 ", "operation-header-v9.9.9",
	"quicstream-unknown-response-header-v0.0.1", "quicstream-default-response-header-v3.0.0", "c30-nothing-v2.3.4\x00",
}

// c30FixedSeqs enumerates: unknown hint x {as encoder hint, as header hint} x {request head to a handler, response head
// to a client through ReadResponseHead, through ReadBody}: the hostile head three times, the valid stream, the hostile
// head twice more, a round trip.
func c30FixedSeqs(t ev.TB, r *ev.Rec, env *c30Env) (seqs [][]c30SeqItem) {
	tr, raws, patterns, nmsgs := c30FixedMaterial(t, r, env)
	whole := c30Chunking{Name: "whole"}
	one := c30Chunking{Name: "1byte", Cuts: []int{1}, EOFTog: true}

	for _, ht := range c30FixedUnknownHints {
		if !c30Unregistered(env, ht) {
			t.Fatalf("harness: %q is registered", ht)
		}

		for _, kind := range []string{"unknown-enc-hint", "unknown-header-hint"} {
			for reader := 0; reader < 3; reader++ {
				side := min(reader, 1)
				raw := raws[side]
				lay := c30Walk(raw)

				if len(lay.Hints) < 1 || len(lay.Headers) < 1 {
					t.Fatalf("harness: no head in the fixed stream of side %d", side)
				}

				var bad []byte
				if kind == "unknown-enc-hint" {
					bad = c30Reframe(raw, lay.Hints[0], []byte(ht))
				} else {
					bad = c30Reframe(raw, lay.Headers[0], c30SetHeaderHint(raw[lay.Headers[0][0]:lay.Headers[0][1]], ht))
				}

				pattern := patterns[side]
				if reader == 2 {
					pattern = 0xff // every read through ReadBody
				}

				hostile := c30SeqItem{Kind: kind, Name: fmt.Sprintf("%s(%q)", kind, ht), Side: side, Raw: bad, Pattern: pattern, NMsgs: nmsgs[side]}
				valid := c30SeqItem{Kind: "valid", Name: "valid", Side: side, Raw: raw, Pattern: pattern, NMsgs: nmsgs[side], Valid: true, Chs: []c30Chunking{whole}}

				h3, h2 := hostile, hostile
				h3.Chs = []c30Chunking{whole, whole, one}
				h2.Chs = []c30Chunking{one, whole}

				seqs = append(seqs, []c30SeqItem{h3, valid, h2, {Kind: "roundtrip", Name: "roundtrip", Tr: tr}})
			}
		}
	}

	return seqs
}

func TestC30(t *testing.T) {
	env := c30GetEnv()

	r := ev.Start(t, "C30")
	defer r.Finish()
	r.Rule("A (roundtrip): transcript = one of 29 real request headers (isaac network, memberlist broadcast, launch node r/w; valid fields, drawn client id) " +
		"followed by 0..6 messages: bodies {empty, fixed 0/1/2..40/8/33/100..3000/32KiB+-1/64KiB+-1/2-3 copy buffers/100000, stream} in either direction, each non-empty-kind body " +
		"handed to WriteBody through a reader that is {bytes.Reader, whole reads, 1 byte per read, short reads (cuts 1..64 / 511..40000), short reads with " +
		"zero-length (0,nil) reads in between} x {last bytes together with io.EOF, io.EOF on its own call}, and response heads " +
		"{default, ask-handover, block-item; ok/err} from the handler, read eagerly or deferred, response heads through ReadResponseHead or ReadBody; " +
		"client and handler brokers joined by two in-memory streams with chunkings {whole,1-byte,cuts 1..7,cuts 1..64}x{EOF with data, EOF after}. " +
		"A, fixed part (every tier): {fixed, stream} x sizes {0,1,33,32767,32768,32769,3x32KiB+33} x 9 reader behaviours x direction x 2 stream chunkings, a fixed body followed by a second one. " +
		"B (hostile): the bytes one side wrote, mutated {none, every/drawn truncation, byte flip, hostile length word, type byte, header JSON field " +
		"deleted/retyped/re-hinted to any registered hint, encoder hint, inserted garbage}, fed to the other side's read calls (1 in 6: to the wrong side's). " +
		"C (sequence): 2..6 streams read one after the other by fresh brokers that share ONE fresh encoder set (as the streams of a node do): heads whose encoder hint / " +
		"header _hint is parsable but unregistered (unknown type, or known type with an unregistered major version, optionally padded), each read 1..3 times " +
		"back to back with drawn chunkings, B-mutated streams, unmodified streams, round trips; closed by an unmodified stream or a round trip; plus a fixed " +
		"enumeration (8 unknown hints x {encoder hint, header hint} x {ReadRequestHead, ReadResponseHead, ReadBody}: hostile x3, valid, hostile x2, round trip). " +
		"non-trivial: A: >=2 messages, a non-empty body, and its stream chunked below 8 bytes; B: any mutated stream; C: an unregistered-hint head read twice or more " +
		"in a row with valid traffic after it; distinct by (transcript, chunking, mutation) / by the streams and chunkings of the sequence")
	r.Floor(100)
	r.Assume("request/response headers are valid (callers run IsValid before writing) and fixed-length bodies are written with their true length",
		"the handler prefix (32 bytes) is consumed by quicstream.PrefixHandler before the handler broker reads; the harness does the same",
		"a fixed-length body is handed out lazily: a stream that ends before the declared length shows as a short read to the consumer holding bodyLength (counted, not judged)",
		"hint/header length words above MaxInt32 are rejected by the reader; below that the reader allocates what the peer declares (observed, not judged; EnsureRead allocates the remaining declared length again for every Read call; 64 MiB is exercised once, other declared lengths between 256 KiB and the reader's 2 GiB cap are skipped)",
		"a header returned without error must survive IsValid / OK / Err / Handler calls (what the handler layer does next) without panic",
		"a node serves all its streams with one encoder.Encoders (launch.PEncoder); 'any byte stream from a peer' therefore includes a stream that arrives after other (hostile or valid) streams were read with the same encoder set; the verdict on a repeated stream may differ from the first one (counted, not judged) but each read must still end in an error or a well-formed message")

	// ---- deterministic: a large accepted hint length (64 MiB; the reader's own cap is 2 GiB - 1) on a short stream
	t.Run("maxalloc", func(t *testing.T) {
		if !r.Mine(0) {
			return
		}

		for side := 0; side < 2; side++ {
			raw := []byte{0x01}
			if side == 1 {
				raw = []byte{0x03}
			}

			raw = binary.BigEndian.AppendUint64(raw, c30BigAlloc)
			raw = append(raw, "json-encoder-v0.0.1"...)

			c30Journal(r, "maxalloc", raw)

			res := c30Hostile(t, r, env, side, raw, c30Chunking{Name: "whole"}, 0)
			if res.Msgs != 0 || res.Err == "" {
				r.Violation(t, "truncated-accepted", "a head whose hint length word says 2^26 on a %d byte stream was read without error", len(raw))
			}

			r.Case(fmt.Sprintf("maxalloc side=%d", side), true, "mode:maxalloc")

			if side == 0 {
				r.Sample(map[string]any{"mode": "maxalloc", "stream": c30Short(raw)})
			}
		}
	})

	// ---- deterministic: the seed corpus of the native fuzz target (valid streams and hostile constants)
	t.Run("seeds", func(t *testing.T) {
		for i, s := range c30Seeds(env) {
			if !r.Mine(i) {
				continue
			}

			c30Journal(r, "seed", s)
			c30FuzzOne(t, r, env, s)
			r.CaseN(1, 1, "mode:fuzz-seed")
		}
	})

	// ---- A, fixed part: body kind x size x behaviour of the writer's body reader x direction x chunking of the stream
	t.Run("body-readers", func(t *testing.T) {
		op := isaacnetwork.NewOperationRequestHeader(valuehash.NewSHA256([]byte("c30")))
		op.SetClientID("rd")

		chunkings := []c30Chunking{
			{Name: "whole"},
			{Name: "drawn", Cuts: []int{1, 7, 64, 3}, EOFTog: true},
		}

		i := -1

		for _, bt := range []quicstreamheader.BodyType{quicstreamheader.FixedLengthBodyType, quicstreamheader.StreamBodyType} {
			for _, size := range c30ReaderSweepSizes {
				for _, kind := range c30ReaderSweepKinds() {
					for dir := 0; dir < 2; dir++ {
						for _, ch := range chunkings {
							i++
							if !r.Mine(i) {
								continue
							}

							body := c30Msg{Dir: dir, Kind: "body", BodyType: bt, Body: c30Fill(size, byte(i)), Rd: kind, Eager: i%3 == 0}
							body.Desc = fmt.Sprintf("body:%s/%d@%s", c30BodyTypeName(bt), size, kind)

							tr := c30Transcript{Ch: [2]c30Chunking{ch, ch}, Msgs: []c30Msg{
								{Dir: 0, Kind: "reqhead", Req: op, Eager: true, Desc: "req:operation"},
								{Dir: 1, Kind: "reshead", Res: quicstreamheader.NewDefaultResponseHeader(true, nil), Eager: true, Desc: "res:default(ok=true,err=false)"},
								body,
							}}

							if bt == quicstreamheader.FixedLengthBodyType {
								// what follows a fixed-length body in the same direction must still be framed right
								tr.Msgs = append(tr.Msgs, c30Msg{
									Dir: dir, Kind: "body", BodyType: quicstreamheader.FixedLengthBodyType, Body: []byte(`{"a":1}`), Eager: true, Desc: "body:fixed/7",
								})
							}

							r.Journal("body-readers %s chunk=%s", tr.desc(), ch.Name)
							c30RoundTrip(t, r, env, tr)

							r.CaseN(1, 1, "mode:roundtrip-reader-sweep", "reader:"+kind.class(), "msg:body-"+c30BodyTypeName(bt))

							if i == 0 {
								r.Sample(map[string]any{"mode": "roundtrip-reader-sweep", "transcript": tr.desc(), "chunking": ch})
							}
						}
					}
				}
			}
		}
	})

	// ---- A. round trips
	maxMore := r.N(6, 6)
	rtSamples := 0

	r.MaxSamples(10)

	r.Checks(4000, 80000)
	r.ShrinkTime(30 * time.Second)
	rapid.Check(t, func(rt *rapid.T) {
		tr := genC30Transcript(env, maxMore).Draw(rt, "transcript")
		desc := tr.desc()
		r.Journal("roundtrip %s", desc)

		c30RoundTrip(rt, r, env, tr)

		nontrivial := false
		classes := []string{"mode:roundtrip", fmt.Sprintf("msgs:%d", len(tr.Msgs)), "chunkC2H:" + tr.Ch[0].Name, "chunkH2C:" + tr.Ch[1].Name}
		seen := map[string]bool{}

		for _, m := range tr.Msgs {
			c := ""

			switch m.Kind {
			case "body":
				c = "msg:body-" + c30BodyTypeName(m.BodyType)
				if len(m.Body) > 0 && len(tr.Msgs) >= 2 && tr.Ch[m.Dir].minCut() < 8 {
					nontrivial = true
				}

				if len(m.Body) >= 65535 && !seen["size"] {
					seen["size"] = true
					classes = append(classes, "body:64KiB")
				}

				if len(m.Body) >= 32767 && len(m.Body) <= 32769 && !seen["size32k"] {
					seen["size32k"] = true
					classes = append(classes, "body:32KiB")
				}

				if !m.NilBody && m.BodyType != quicstreamheader.EmptyBodyType {
					if rc := "reader:" + m.Rd.class(); !seen[rc] {
						seen[rc] = true
						classes = append(classes, rc)
					}

					if m.Rd.EOFWith && len(m.Body) > 0 && !seen["rdeof"] {
						seen["rdeof"] = true
						classes = append(classes, "reader:last-bytes-with-eof")
					}
				}
			case "reshead":
				c = "msg:reshead"
				if m.ViaBody {
					c = "msg:reshead-via-ReadBody"
				}
			}

			if c != "" && !seen[c] {
				seen[c] = true
				classes = append(classes, c)
			}

			if !m.Eager && !seen["deferred"] {
				seen["deferred"] = true
				classes = append(classes, "read:deferred")
			}
		}

		if nontrivial {
			classes = append(classes, "nontrivial:roundtrip")
		}

		fp := fmt.Sprintf("rt|%s|%s%v%v|%s%v%v", desc, tr.Ch[0].Name, tr.Ch[0].Cuts, tr.Ch[0].EOFTog, tr.Ch[1].Name, tr.Ch[1].Cuts, tr.Ch[1].EOFTog)
		r.Case(fp, nontrivial, classes...)

		if nontrivial && rtSamples < 3 && r.WantSample() {
			rtSamples++
			r.Sample(map[string]any{"mode": "roundtrip", "transcript": desc, "chunk_c2h": tr.Ch[0], "chunk_h2c": tr.Ch[1]})
		}
	})

	// ---- B. hostile peer
	samples := 0

	r.Checks(6000, 240000)
	rapid.Check(t, func(rt *rapid.T) {
		tr := genC30Transcript(env, 4).Draw(rt, "transcript")
		side := rapid.IntRange(0, 1).Draw(rt, "side")
		ch := genC30Chunking().Draw(rt, "chunking")

		// keep the material small: 64 KiB bodies add nothing to the parser's view
		for i := range tr.Msgs {
			if len(tr.Msgs[i].Body) > 4000 {
				tr.Msgs[i].Body = tr.Msgs[i].Body[:4000]
				tr.Msgs[i].Desc += "(cut)"
			}
		}

		raw, pattern, nmsgs := c30Record(rt, r, env, tr, side)
		if len(raw) == 0 {
			// the handler wrote nothing in this transcript: use the client's stream instead
			side = 0
			raw, pattern, nmsgs = c30Record(rt, r, env, tr, side)
		}
		mut := c30Mutate(rt, env, raw)

		// cross feeding: what a handler would write is sent to a handler (and the other way round)
		readSide := side
		if rapid.IntRange(0, 5).Draw(rt, "cross") == 0 {
			readSide = 1 - side
			mut.Valid = false
			mut.Kind = "cross+" + mut.Kind
			mut.Name = "cross+" + mut.Name
		}

		if !mut.Valid && rapid.IntRange(0, 3).Draw(rt, "randomPattern") == 0 {
			pattern = uint(rapid.IntRange(0, 255).Draw(rt, "pattern"))
		}

		classes := []string{"mode:hostile", "mutation:" + mut.Kind, fmt.Sprintf("side:%d", readSide), "chunk:" + ch.Name}
		seen := map[string]bool{}

		for _, v := range mut.Variants {
			if c30TooExpensive(v) {
				classes = append(classes, "skipped:giant-declared-length")

				continue
			}

			c30Journal(r, fmt.Sprintf("hostile side=%d chunk=%s%v pattern=%d", readSide, ch.Name, ch.Cuts, pattern), v)

			res := c30Hostile(rt, r, env, readSide, v, ch, pattern)

			if mut.Valid && (res.Err != "" && res.Msgs < nmsgs) {
				r.Violation(rt, "valid-stream-rejected", "an unmodified %d-message stream (%s, side %d) was rejected after %d messages: %s [chunking %s %v]",
					nmsgs, tr.desc(), side, res.Msgs, res.Err, ch.Name, ch.Cuts)
			}

			o := "outcome:error-at-first-message"

			switch {
			case res.Err == "":
				o = "outcome:all-read"
			case res.Msgs > 0:
				o = "outcome:error-after-messages"
			}

			for _, c := range append(res.Classes, o) {
				if !seen[c] {
					seen[c] = true
					classes = append(classes, c)
				}
			}
		}

		fp := fmt.Sprintf("h|%d|%s|%s%v%v|%s|%d", readSide, tr.desc(), ch.Name, ch.Cuts, ch.EOFTog, mut.Name, pattern)
		r.Case(fp, !mut.Valid, classes...)

		if !mut.Valid && samples < 2 && r.WantSample() {
			samples++
			r.Sample(map[string]any{"mode": "hostile", "read_by_side": readSide, "from": tr.desc(), "mutation": mut.Name, "chunking": ch, "stream_bytes": len(raw)})
		}
	})

	// ---- C. sequences of reads on one encoder set: the fixed enumeration, then drawn sequences
	t.Run("repeated-heads", func(t *testing.T) {
		for i, seq := range c30FixedSeqs(t, r, env) {
			if !r.Mine(i) {
				continue
			}

			res := c30RunSeq(t, r, env, seq)
			r.CaseN(1, 1, append(res.Classes, "mode:sequence-fixed")...)

			if i == 0 {
				r.Sample(map[string]any{"mode": "sequence-fixed", "sequence": c30SeqDesc(seq)})
			}
		}
	})

	seqSamples := 0

	r.Checks(1200, 48000)
	rapid.Check(t, func(rt *rapid.T) {
		seq := genC30Seq(env, r).Draw(rt, "sequence")
		res := c30RunSeq(rt, r, env, seq)

		nontrivial := c30SeqNontrivial(seq)
		classes := append(res.Classes, "mode:sequence", fmt.Sprintf("seq-items:%d", len(seq)))

		if nontrivial {
			classes = append(classes, "nontrivial:sequence")
		}

		r.Case(c30SeqFingerprint(seq), nontrivial, classes...)

		if nontrivial && seqSamples < 2 && r.WantSample() {
			seqSamples++
			r.Sample(map[string]any{"mode": "sequence", "sequence": c30SeqDesc(seq), "reads": res.Reads})
		}
	})
}

// ---------------------------------------------------------------- native fuzz target

var c30FuzzRec = sync.OnceValue(func() *ev.Rec {
	// known-findings filter and violation marker only; never finished, so no evidence file is written from here
	return ev.Start(c30NopTB{}, "C30")
})

type c30NopTB struct{}

func (c30NopTB) Helper()               {}
func (c30NopTB) Fatalf(string, ...any) {}
func (c30NopTB) Logf(string, ...any)   {}

// c30Seeds builds the seed corpus: valid one-direction streams written by the real brokers, and hostile constants.
func c30Seeds(env *c30Env) (seeds [][]byte) {
	r := c30FuzzRec()
	tb := c30PanicTB{}

	op := isaacnetwork.NewOperationRequestHeader(valuehash.NewSHA256([]byte("c30")))
	op.SetClientID("seed")
	challenge := isaacnetwork.NewNodeChallengeRequestHeader([]byte("input"), env.addrs[0], env.keys[0].Publickey())
	handover := isaacnetwork.NewStartHandoverHeader(
		quicstream.MustConnInfo(&net.UDPAddr{IP: net.IPv4(127, 0, 0, 1), Port: 4321}, true), env.addrs[1], env.keys[1].Publickey())
	proposal := isaacnetwork.NewRequestProposalRequestHeader(base.RawPoint(33, 1), env.addrs[2], valuehash.NewSHA256([]byte("prev")))
	uri, _ := url.Parse("file:///a/b.json")

	body := func(dir int, bt quicstreamheader.BodyType, b []byte) c30Msg {
		return c30Msg{Dir: dir, Kind: "body", BodyType: bt, Body: b, Desc: "body"}
	}
	res := func(h quicstreamheader.ResponseHeader) c30Msg { return c30Msg{Dir: 1, Kind: "reshead", Res: h, Desc: "res"} }
	req := func(h quicstreamheader.RequestHeader) c30Msg { return c30Msg{Dir: 0, Kind: "reqhead", Req: h, Desc: "req"} }

	trs := []c30Transcript{
		{Msgs: []c30Msg{req(op), res(quicstreamheader.NewDefaultResponseHeader(true, nil)), body(1, quicstreamheader.FixedLengthBodyType, []byte(`{"a":1}`))}},
		{Msgs: []c30Msg{req(challenge), body(1, quicstreamheader.FixedLengthBodyType, []byte("sign me")), body(0, quicstreamheader.FixedLengthBodyType, []byte("signature")),
			res(quicstreamheader.NewDefaultResponseHeader(false, errors.New("hehe")))}},
		{Msgs: []c30Msg{req(handover), body(0, quicstreamheader.EmptyBodyType, nil), res(isaacnetwork.NewAskHandoverResponseHeader(true, nil, "id-1")), body(1, quicstreamheader.EmptyBodyType, nil)}},
		{Msgs: []c30Msg{req(proposal), body(0, quicstreamheader.StreamBodyType, []byte("streamed request body")),
			res(isaacnetwork.NewBlockItemResponseHeader(true, nil, *uri, "gz")), body(1, quicstreamheader.StreamBodyType, []byte("streamed response body"))}},
		{Msgs: []c30Msg{req(isaacnetwork.NewSendBallotsHeader()), body(0, quicstreamheader.FixedLengthBodyType, []byte{}), body(0, quicstreamheader.FixedLengthBodyType, []byte{2, 2, 0, 0}),
			body(1, quicstreamheader.FixedLengthBodyType, []byte{}), res(quicstreamheader.NewDefaultResponseHeader(true, nil))}},
	}

	add := func(side int, flags byte, raw []byte) {
		seeds = append(seeds, append([]byte{flags<<1 | byte(side)}, raw...))
	}

	for _, tr := range trs {
		for side := 0; side < 2; side++ {
			raw, pattern, _ := c30Record(tb, r, env, tr, side)
			add(side, byte(pattern<<3)&0x78, raw)
			add(side, byte(pattern<<3)&0x78|1, raw) // 1-byte chunks
			add(1-side, 0, raw)                     // sent to the wrong kind of reader
			add(1-side, 0x78, raw)

			lay := c30Walk(raw)

			for i, o := range lay.LenWords {
				for _, v := range []uint64{0, 1 << 31, ^uint64(0), 1 << 17} {
					if lay.LenIsHead[i] && v == 1<<17 {
						continue
					}

					b := append([]byte(nil), raw...)
					binary.BigEndian.PutUint64(b[o:], v)
					add(side, 0, b)
				}
			}

			for _, reg := range lay.Headers {
				for _, j := range c30HostileJSON {
					add(side, 0, c30Reframe(raw, reg, []byte(j)))
				}
			}

			for _, reg := range lay.Hints {
				for _, h := range c30HostileEncHints[:6] {
					add(side, 0, c30Reframe(raw, reg, []byte(h)))
				}
			}
		}
	}

	// one frame per registered hint: a head whose header JSON carries nothing but that hint
	for _, ht := range env.hints {
		for side, dt := range []byte{0x01, 0x03} {
			b := []byte{dt}
			b = binary.BigEndian.AppendUint64(b, uint64(len("json-encoder-v0.0.1")))
			b = append(b, "json-encoder-v0.0.1"...)
			j := `{"_hint":` + strconv.Quote(ht) + `}`
			b = binary.BigEndian.AppendUint64(b, uint64(len(j)))
			b = append(b, j...)
			add(side, 0, b)
		}
	}

	// sequences on one encoder set: a head with a parsable but unregistered encoder hint / header hint read two and three
	// times in a row, with valid streams and other hostile ones around it
	{
		_, raws, patterns, _ := c30FixedMaterial(tb, r, env)
		frame := func(side int, flags byte, raw []byte) []byte { return append([]byte{flags<<1 | byte(side)}, raw...) }

		for _, ht := range c30FixedUnknownHints {
			for side := 0; side < 2; side++ {
				raw := raws[side]
				lay := c30Walk(raw)
				flags := byte(patterns[side]<<3) & 0x78
				valid := frame(side, flags, raw)
				other := frame(side, 0, c30Reframe(raw, lay.Headers[0], []byte(`{"_hint":"x"}`)))

				for _, bad := range [][]byte{
					c30Reframe(raw, lay.Hints[0], []byte(ht)),
					c30Reframe(raw, lay.Headers[0], c30SetHeaderHint(raw[lay.Headers[0][0]:lay.Headers[0][1]], ht)),
				} {
					b := frame(side, flags, bad)
					seeds = append(seeds,
						c30FuzzJoin(b, nil),                                   // twice
						c30FuzzJoin(b, nil, nil, valid),                       // three times, then valid
						c30FuzzJoin(valid, b, frame(side, flags|1, bad), nil), // valid, then three times with other chunkings
						c30FuzzJoin(b, other, b, nil, valid, nil),             // interleaved with another hostile head
						c30FuzzJoin(b, frame(1-side, 0x78, bad), b),           // the same head to the other kind of reader in between
					)
				}
			}
		}
	}

	for _, raw := range [][]byte{{}, {0}, {1}, {2}, {3}, {2, 1}, {2, 2}, {2, 3}, {2, 0}, {2, 2, 0, 0, 0, 0, 0, 0, 0, 0}, {2, 2, 0xff, 0xff, 0xff, 0xff, 0xff, 0xff, 0xff, 0xff, 1}} {
		add(0, 0, raw)
		add(1, 0x0f, raw)
	}

	return seeds
}

// c30PanicTB is used where a harness failure while building seeds must stop the run.
type c30PanicTB struct{}

func (c30PanicTB) Helper() {}
func (c30PanicTB) Fatalf(f string, a ...any) {
	panic("harness: " + fmt.Sprintf(f, a...))
}
func (c30PanicTB) Logf(string, ...any) {}

// c30MaxDeclared: util.EnsureRead allocates a fresh buffer of the whole remaining declared length for every Read call, so
// a hint/header length word of N bytes on a stream delivered in k chunks costs k*N bytes of allocation (N up to 2 GiB).
// Inputs whose hint/header length words (found by the reference walker, which reads a superset of what the brokers read)
// declare more than this bound (and not more than the reader's own cap) are not executed: they would exhaust the shared
// machine. As a second line of defence the hostile-mode stream refuses read buffers above c30MaxReadBuf.
const (
	c30MaxDeclared = 256 << 10
	c30MaxReadBuf  = 1 << 20
)

func c30TooExpensive(raw []byte) bool {
	return c30Walk(raw).MaxAlloc > c30MaxDeclared
}

// The fuzz input is a sequence of frames separated by c30FuzzSep, all read with ONE fresh encoder set (the streams a
// node gets one after the other); an empty frame repeats the previous one. An input without separator is one frame.
// Frame: first byte = side (bit 0), chunking (bits 1-2: whole, 1-byte, 3-byte, 7/1/13), EOF-with-data (bit 3),
// client read pattern (bits 4-7); the rest is the peer's byte stream.
var c30FuzzSep = []byte{0xfe, 'S', 'Q', 0xfe}

const c30FuzzMaxReads = 12

func c30FuzzJoin(frames ...[]byte) []byte {
	return bytes.Join(frames, c30FuzzSep)
}

func c30FuzzOne(t ev.TB, r *ev.Rec, env *c30Env, data []byte) {
	if len(data) < 1 || len(data) > 1<<16 {
		return
	}

	// a fresh encoder set per input: the verdict on an input must not depend on the inputs executed before it
	senv := c30NewSeqEnv(env)

	var prev []byte

	reads := 0

	for _, f := range bytes.Split(data, c30FuzzSep) {
		if len(f) == 0 {
			f = prev
		}

		if len(f) == 0 {
			continue
		}

		if reads >= c30FuzzMaxReads {
			return
		}

		prev = f
		senv.note = fmt.Sprintf(" [read %d of the fuzz input %s, frames separated by %q and read with one encoder set]", reads, c30Short(data), c30FuzzSep)
		reads++

		c30FuzzFrame(t, r, senv, f)
	}
}

func c30FuzzFrame(t ev.TB, r *ev.Rec, env *c30Env, data []byte) {
	flags, raw := data[0], data[1:]
	side := int(flags & 1)

	// giant declared hint/header lengths are left to TestC30's single deterministic case
	if c30TooExpensive(raw) {
		return
	}

	ch := c30Chunking{Name: "whole"}

	switch (flags >> 1) & 3 {
	case 1:
		ch = c30Chunking{Name: "1byte", Cuts: []int{1}}
	case 2:
		ch = c30Chunking{Name: "3byte", Cuts: []int{3}}
	case 3:
		ch = c30Chunking{Name: "7-1-13", Cuts: []int{7, 1, 13}}
	}

	ch.EOFTog = flags&8 != 0

	_ = c30Hostile(t, r, env, side, raw, ch, uint(flags>>4))
}

func FuzzC30(f *testing.F) {
	env := c30GetEnv()
	r := c30FuzzRec()

	for _, s := range c30Seeds(env) {
		f.Add(s)
	}

	if p := os.Getenv("VERIF_FUZZ_REPLAY"); p != "" {
		b, err := c30ReadCorpusFile(p)
		if err != nil {
			f.Fatalf("replay file: %v", err)
		}

		f.Add(b)
	}

	f.Fuzz(func(t *testing.T, data []byte) {
		c30FuzzOne(t, r, env, data)
	})
}

// c30ReadCorpusFile parses a "go test fuzz v1" corpus file holding one []byte value.
func c30ReadCorpusFile(p string) ([]byte, error) {
	b, err := os.ReadFile(p)
	if err != nil {
		return nil, err
	}

	for _, line := range strings.Split(string(b), "\n") {
		line = strings.TrimSpace(line)
		if strings.HasPrefix(line, "[]byte(") && strings.HasSuffix(line, ")") {
			s, err := strconv.Unquote(line[len("[]byte(") : len(line)-1])
			if err != nil {
				return nil, err
			}

			return []byte(s), nil
		}
	}

	return nil, fmt.Errorf("no []byte value in %s", p)
}

// TestC30Seeds keeps the seed corpus honest: every unmodified seed transcript is read completely by the other side.
func TestC30Seeds(t *testing.T) {
	env := c30GetEnv()
	r := c30FuzzRec()

	seeds := c30Seeds(env)
	if len(seeds) < 100 {
		t.Fatalf("seed corpus has %d entries", len(seeds))
	}

	for _, s := range seeds {
		c30FuzzOne(t, r, env, s)
	}
}
