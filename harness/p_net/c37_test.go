package p_net

import (
	"fmt"
	"net"
	"sort"
	"strings"
	"testing"
	"time"

	"github.com/spikeekips/mitum/base"
	"github.com/spikeekips/mitum/network/quicmemberlist"
	"pgregory.net/rapid"
	"verif/internal/ev"
)

// C37: the memberlist member table (network/quicmemberlist membersPool, reached through hook H2) against a plain
// model written from the statement: a map "address -> the member that joined there last and has not left".

const (
	c37Nodes = 3
	c37Addrs = 6
)

// c37AddrPool: pairwise different UDP addresses (different port, different IPv4 host, IPv6). Index = model key.
var c37AddrPool = [c37Addrs]struct {
	ip   [4]byte
	ip6  bool
	port int
}{
	{ip: [4]byte{127, 0, 0, 1}, port: 4001},
	{ip: [4]byte{127, 0, 0, 1}, port: 4002},
	{ip: [4]byte{127, 0, 0, 2}, port: 4001},
	{ip: [4]byte{10, 0, 0, 1}, port: 4001},
	{ip6: true, port: 4001},
	{ip: [4]byte{127, 0, 0, 1}, port: 14001},
}

// c37UDPAddr builds a fresh *net.UDPAddr for pool entry i. form16 selects the 16-byte representation of an IPv4
// address (what net.ParseIP / net.ResolveUDPAddr produce) instead of the 4-byte one: the same address either way.
func c37UDPAddr(i int, form16 bool) *net.UDPAddr {
	a := c37AddrPool[i]

	if a.ip6 {
		return &net.UDPAddr{IP: net.ParseIP("::1"), Port: a.port}
	}

	ip := net.IPv4(a.ip[0], a.ip[1], a.ip[2], a.ip[3]) // 16-byte form
	if !form16 {
		ip = ip.To4()
	}

	return &net.UDPAddr{IP: ip, Port: a.port}
}

type c37NodeID struct {
	addr base.Address
	pub  base.Publickey
}

var c37NodeIDs = func() (ns [c37Nodes]c37NodeID) {
	for i := range ns {
		priv, err := base.NewMPrivatekeyFromSeed(fmt.Sprintf("c37-node-seed-%032d", i))
		if err != nil {
			panic(err)
		}

		ns[i] = c37NodeID{addr: base.NewStringAddress(fmt.Sprintf("node%d", i)), pub: priv.Publickey()}
	}

	return ns
}()

type c37Op struct {
	Kind   string // join | leave
	Node   int    // join only
	Addr   int
	Form16 bool
}

func (o c37Op) String() string {
	if o.Kind == "join" {
		return fmt.Sprintf("join(n%d,a%d)", o.Node, o.Addr)
	}

	return fmt.Sprintf("leave(a%d)", o.Addr)
}

type c37Entry struct {
	node   int
	serial int // identifies the member object that joined (its Name is "m<serial>")
}

func c37Name(serial int) string { return fmt.Sprintf("m%d", serial) }

func genC37Op(joinPct int) *rapid.Generator[c37Op] {
	return rapid.Custom(func(t *rapid.T) c37Op {
		o := c37Op{
			Addr:   rapid.IntRange(0, c37Addrs-1).Draw(t, "addr"),
			Form16: rapid.Bool().Draw(t, "form16"),
		}

		if rapid.IntRange(0, 99).Draw(t, "k") < joinPct {
			o.Kind = "join"
			o.Node = rapid.IntRange(0, c37Nodes-1).Draw(t, "node")
		} else {
			o.Kind = "leave"
		}

		return o
	})
}

func genC37Ops(maxSteps int) *rapid.Generator[[]c37Op] {
	return rapid.Custom(func(t *rapid.T) []c37Op {
		// per-sequence bias so that some sequences are join-heavy (nodes with many addresses) and others churn
		joinPct := rapid.SampledFrom([]int{80, 70, 60, 50}).Draw(t, "joinPct")

		// drawn minimum length (rapid's own slice lengths are mostly short); shrinks towards 1, then elements can be deleted
		minN := rapid.IntRange(1, maxSteps).Draw(t, "minSteps")

		return rapid.SliceOfN(genC37Op(joinPct), minN, maxSteps).Draw(t, "ops")
	})
}

// c37Observe compares every read method of the table with the model. hist is only used for messages.
func c37Observe(t ev.TB, r *ev.Rec, pool *quicmemberlist.VerifMembersPool, present map[int]c37Entry, hist func() string) {
	count := [c37Nodes]int{}
	for _, e := range present {
		count[e.node]++
	}

	// presence and lookup by address
	for a := 0; a < c37Addrs; a++ {
		e, isPresent := present[a]

		for _, form16 := range []bool{false, true} {
			addr := c37UDPAddr(a, form16)

			if got := pool.Exists(addr); got != isPresent {
				r.Violation(t, "exists-mismatch", "Exists(%v)=%v but the member is present=%v after %s", addr, got, isPresent, hist())
			}

			m, found := pool.Get(addr)

			switch {
			case isPresent && !found:
				r.Violation(t, "get-notfound-present", "Get(%v) reports found=false (member=%v) for a present member (joined as %s, not left) after %s",
					addr, m != nil, c37Name(e.serial), hist())
			case !isPresent && found:
				r.Violation(t, "get-found-absent", "Get(%v) reports found=true for an address that is not present after %s", addr, hist())
			case isPresent:
				if m == nil || m.Name() != c37Name(e.serial) || !m.Address().Equal(c37NodeIDs[e.node].addr) {
					r.Violation(t, "get-wrong-member", "Get(%v) returned member %v, want %s of node%d after %s", addr, m, c37Name(e.serial), e.node, hist())
				}
			}
		}
	}

	if got := pool.Len(); got != len(present) {
		r.Violation(t, "len-mismatch", "Len()=%d, present members=%d after %s", got, len(present), hist())
	}

	// per-node member lists
	for n := 0; n < c37Nodes; n++ {
		list := pool.VerifNodeMembers(c37NodeIDs[n].addr)

		seen := map[string]int{}
		var stale, dup []string

		for _, m := range list {
			a := c37AddrIndex(m.Addr())
			key := fmt.Sprintf("a%d", a)

			seen[key]++
			if seen[key] == 2 {
				dup = append(dup, key)
			}

			e, ok := present[a]
			if a < 0 || !ok || e.node != n || m.Name() != c37Name(e.serial) || !m.Address().Equal(c37NodeIDs[n].addr) {
				stale = append(stale, fmt.Sprintf("%s/%s", key, m.Name()))
			}
		}

		var missing []string

		for a, e := range present {
			if e.node == n && seen[fmt.Sprintf("a%d", a)] == 0 {
				missing = append(missing, fmt.Sprintf("a%d/%s", a, c37Name(e.serial)))
			}
		}

		sort.Strings(missing)

		listBad := true

		switch {
		case len(missing) > 0:
			r.Violation(t, "node-list-missing", "member list of node%d lacks present member(s) %v (list has %d, want %d) after %s",
				n, missing, len(list), count[n], hist())
		case len(dup) > 0:
			r.Violation(t, "node-list-duplicate", "member list of node%d holds address(es) %v more than once (list has %d, want %d) after %s",
				n, dup, len(list), count[n], hist())
		case len(stale) > 0:
			r.Violation(t, "node-list-stale", "member list of node%d holds %v which is not a present member of that node (list has %d, want %d) after %s",
				n, stale, len(list), count[n], hist())
		default:
			listBad = false
		}

		if listBad {
			// a recorded (known) list defect: the length views below are derived from the same list, same root cause
			continue
		}

		if got := pool.MembersLen(c37NodeIDs[n].addr); got != count[n] {
			r.Violation(t, "memberslen-mismatch", "MembersLen(node%d)=%d, present members of that node=%d after %s", n, got, count[n], hist())
		}

		for a := 0; a < c37Addrs; a++ {
			e, ok := present[a]
			wantFound := ok && e.node == n
			wantOthers := count[n]

			if wantFound {
				wantOthers--
			}

			l, others, found := pool.MembersLenOthers(c37NodeIDs[n].addr, c37UDPAddr(a, false))
			if l != count[n] || others != wantOthers || found != wantFound {
				r.Violation(t, "memberslenothers-mismatch", "MembersLenOthers(node%d,a%d)=(%d,%d,%v), want (%d,%d,%v) after %s",
					n, a, l, others, found, count[n], wantOthers, wantFound, hist())
			}
		}
	}

	// traversal: every present member exactly once
	visited := map[int]int{}
	var wrong []string

	pool.Traverse(func(m quicmemberlist.Member) bool {
		a := c37AddrIndex(m.Addr())
		visited[a]++

		if e, ok := present[a]; !ok || m.Name() != c37Name(e.serial) {
			wrong = append(wrong, fmt.Sprintf("a%d/%s", a, m.Name()))
		}

		return true
	})

	for a := range present {
		if visited[a] != 1 {
			wrong = append(wrong, fmt.Sprintf("a%d visited %d times", a, visited[a]))
		}
	}

	if len(wrong) > 0 || len(visited) != len(present) {
		sort.Strings(wrong)
		r.Violation(t, "traverse-mismatch", "Traverse visited %v; present=%d visited=%d after %s", wrong, len(present), len(visited), hist())
	}
}

// c37AddrIndex maps an address handed back by the table to its pool index, independent of its IP representation.
func c37AddrIndex(addr *net.UDPAddr) int {
	if addr == nil {
		return -1
	}

	for i := 0; i < c37Addrs; i++ {
		w := c37UDPAddr(i, false)
		if w.Port == addr.Port && w.IP.Equal(addr.IP) {
			return i
		}
	}

	return -1
}

func c37Run(t ev.TB, r *ev.Rec, ops []c37Op) (nontrivial bool, classes []string) {
	pool := quicmemberlist.NewVerifMembersPool()
	present := map[int]c37Entry{}
	cls := map[string]bool{}

	var done []string
	hist := func() string { return "[" + strings.Join(done, " ") + "]" }

	for i, op := range ops {
		serial := i + 1
		prev, wasPresent := present[op.Addr]

		ownerCount := 0
		if wasPresent {
			for _, e := range present {
				if e.node == prev.node {
					ownerCount++
				}
			}
		}

		done = append(done, op.String())

		switch op.Kind {
		case "join":
			id := c37NodeIDs[op.Node]

			m, err := quicmemberlist.NewMember(c37Name(serial), c37UDPAddr(op.Addr, op.Form16), id.addr, id.pub, "", true)
			if err != nil {
				t.Fatalf("harness: NewMember: %v", err)
			}

			added := pool.Set(m)
			present[op.Addr] = c37Entry{node: op.Node, serial: serial}

			if added == wasPresent {
				r.Violation(t, "set-return", "Set returned added=%v for an address that was present=%v after %s", added, wasPresent, hist())
			}

			switch {
			case !wasPresent:
				cls["op:join-new"] = true
			case prev.node == op.Node:
				cls["op:rejoin-same-node"] = true
			default:
				cls["op:rejoin-other-node"] = true
			}

			if wasPresent && ownerCount >= 2 {
				nontrivial = true
				cls["nontrivial:rejoin-at-multi-addr-node"] = true
			}
		case "leave":
			removed, err := pool.Remove(c37UDPAddr(op.Addr, op.Form16))
			delete(present, op.Addr)

			if err != nil {
				r.Violation(t, "remove-error", "Remove returned error %v after %s", err, hist())
			}

			if removed != wasPresent {
				r.Violation(t, "remove-return", "Remove returned removed=%v for an address that was present=%v after %s", removed, wasPresent, hist())
			}

			if wasPresent {
				cls["op:leave-present"] = true
			} else {
				cls["op:leave-unknown"] = true
			}

			if wasPresent && ownerCount >= 2 {
				nontrivial = true
				cls["nontrivial:leave-at-multi-addr-node"] = true
			}
		}

		c37Observe(t, r, pool, present, hist)
	}

	for k := range cls {
		classes = append(classes, k)
	}

	sort.Strings(classes)

	return nontrivial, classes
}

func TestC37(t *testing.T) {
	r := ev.Start(t, "C37")
	defer r.Finish()
	r.Rule("histories of 1..30 (thorough 1..60) operations join(node,addr)/leave(addr) over 3 nodes x 6 distinct UDP addresses " +
		"(drawn join ratio 50-80%, IPv4 addresses in 4- or 16-byte form), including re-join of a present address by the same or another node " +
		"and leave of an unknown address; after every operation Exists/Get/Len/MembersLen/MembersLenOthers/Traverse and the stored per-node lists " +
		"are compared with a map model address->last joined member. non-trivial: a node with >=2 present addresses experienced a leave or a " +
		"re-join of one of them; distinct by operation sequence")
	r.Floor(200)
	r.Assume("the table is keyed by UDP address (Exists/Get/Remove take an address): a join at a present address replaces the member there",
		"Set's added flag and Remove's removed flag are treated as presence reports (whenLeft acts on the latter)",
		"single-goroutine histories; the callers serialise whenJoined/whenLeft with joinedLock")

	maxSteps := r.N(30, 60)

	r.Checks(1500, 50000)
	r.ShrinkTime(20 * time.Second)
	rapid.Check(t, func(rt *rapid.T) {
		ops := genC37Ops(maxSteps).Draw(rt, "ops")

		nontrivial, classes := c37Run(rt, r, ops)

		ss := make([]string, len(ops))
		for i := range ops {
			ss[i] = ops[i].String()
			if ops[i].Form16 {
				ss[i] += "'"
			}
		}

		r.Case(strings.Join(ss, " "), nontrivial, classes...)
		r.Class("operations", int64(len(ops)))

		if nontrivial && r.WantSample() {
			r.Sample(map[string]any{"ops": ss})
		}
	})
}
