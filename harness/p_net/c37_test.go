package p_net

import (
	"fmt"
	"net"
	"runtime"
	"sort"
	"strings"
	"sync"
	"sync/atomic"
	"testing"
	"time"

	"github.com/spikeekips/mitum/base"
	"github.com/spikeekips/mitum/network/quicmemberlist"
	"pgregory.net/rapid"
	"verif/internal/ev"
)

// C37: the memberlist member table (network/quicmemberlist membersPool, reached through hook H2) against a plain
// model written from the statement: a map "address -> the member that joined there last and has not left".

const (
	c37Nodes = 3
	c37Addrs = 6
)

// c37AddrPool: pairwise different UDP addresses (different port, different IPv4 host, IPv6). Index = model key.
type c37AddrSpec struct {
	ip   [4]byte
	ip6  bool
	port int
}

var c37AddrPool = [c37Addrs]c37AddrSpec{
	{ip: [4]byte{127, 0, 0, 1}, port: 4001},
	{ip: [4]byte{127, 0, 0, 1}, port: 4002},
	{ip: [4]byte{127, 0, 0, 2}, port: 4001},
	{ip: [4]byte{10, 0, 0, 1}, port: 4001},
	{ip6: true, port: 4001},
	{ip: [4]byte{127, 0, 0, 1}, port: 14001},
}

// c37UDPAddr builds a fresh *net.UDPAddr for pool entry i. form16 selects the 16-byte representation of an IPv4
// address (what net.ParseIP / net.ResolveUDPAddr produce) instead of the 4-byte one: the same address either way.
func c37UDPAddr(i int, form16 bool) *net.UDPAddr { return c37UDPAddrOf(c37AddrPool[i], form16) }

func c37UDPAddrOf(a c37AddrSpec, form16 bool) *net.UDPAddr {
	if a.ip6 {
		return &net.UDPAddr{IP: net.ParseIP("::1"), Port: a.port}
	}

	ip := net.IPv4(a.ip[0], a.ip[1], a.ip[2], a.ip[3]) // 16-byte form
	if !form16 {
		ip = ip.To4()
	}

	return &net.UDPAddr{IP: ip, Port: a.port}
}

type c37NodeID struct {
	addr base.Address
	pub  base.Publickey
}

var c37NodeIDs = func() (ns [c37Nodes]c37NodeID) {
	for i := range ns {
		priv, err := base.NewMPrivatekeyFromSeed(fmt.Sprintf("c37-node-seed-%032d", i))
		if err != nil {
			panic(err)
		}

		ns[i] = c37NodeID{addr: base.NewStringAddress(fmt.Sprintf("node%d", i)), pub: priv.Publickey()}
	}

	return ns
}()

type c37Op struct {
	Kind   string // join | leave
	Node   int    // join only
	Addr   int
	Form16 bool
}

func (o c37Op) String() string {
	if o.Kind == "join" {
		return fmt.Sprintf("join(n%d,a%d)", o.Node, o.Addr)
	}

	return fmt.Sprintf("leave(a%d)", o.Addr)
}

type c37Entry struct {
	node   int
	serial int // identifies the member object that joined (its Name is "m<serial>")
}

func c37Name(serial int) string { return fmt.Sprintf("m%d", serial) }

func c37MemberName(m quicmemberlist.Member) string {
	if m == nil {
		return "<nil>"
	}

	return fmt.Sprintf("%s/%s", m.Name(), m.Address())
}

func genC37Op(joinPct int) *rapid.Generator[c37Op] {
	return rapid.Custom(func(t *rapid.T) c37Op {
		o := c37Op{
			Addr:   rapid.IntRange(0, c37Addrs-1).Draw(t, "addr"),
			Form16: rapid.Bool().Draw(t, "form16"),
		}

		if rapid.IntRange(0, 99).Draw(t, "k") < joinPct {
			o.Kind = "join"
			o.Node = rapid.IntRange(0, c37Nodes-1).Draw(t, "node")
		} else {
			o.Kind = "leave"
		}

		return o
	})
}

func genC37Ops(maxSteps int) *rapid.Generator[[]c37Op] {
	return rapid.Custom(func(t *rapid.T) []c37Op {
		// per-sequence bias so that some sequences are join-heavy (nodes with many addresses) and others churn
		joinPct := rapid.SampledFrom([]int{80, 70, 60, 50}).Draw(t, "joinPct")

		// drawn minimum length (rapid's own slice lengths are mostly short); shrinks towards 1, then elements can be deleted
		minN := rapid.IntRange(1, maxSteps).Draw(t, "minSteps")

		return rapid.SliceOfN(genC37Op(joinPct), minN, maxSteps).Draw(t, "ops")
	})
}

// c37Report receives a disagreement between the table and the model: clause names the oracle clause.
type c37Report func(clause, format string, a ...any)

// c37SeqReport: the single-goroutine part reports every clause under its own signature, at once.
func c37SeqReport(t ev.TB, r *ev.Rec) c37Report {
	return func(clause, format string, a ...any) {
		t.Helper()
		r.Violation(t, clause, format, a...)
	}
}

// c37Observe compares every read method of the table with the model: addrs is the address universe of the history
// (index = model key), present the model. hist is only used for messages.
func c37Observe(pool *quicmemberlist.VerifMembersPool, addrs []c37AddrSpec, present map[int]c37Entry, hist func() string, rep c37Report) {
	count := [c37Nodes]int{}
	for _, e := range present {
		count[e.node]++
	}

	// presence and lookup by address
	for a := range addrs {
		e, isPresent := present[a]

		for _, form16 := range []bool{false, true} {
			addr := c37UDPAddrOf(addrs[a], form16)

			if got := pool.Exists(addr); got != isPresent {
				rep("exists-mismatch", "Exists(%v)=%v but the member is present=%v after %s", addr, got, isPresent, hist())
			}

			m, found := pool.Get(addr)

			switch {
			case isPresent && !found:
				rep("get-notfound-present", "Get(%v) reports found=false (member=%v) for a present member (joined as %s, not left) after %s",
					addr, m != nil, c37Name(e.serial), hist())
			case !isPresent && found:
				rep("get-found-absent", "Get(%v) reports found=true for an address that is not present after %s", addr, hist())
			case isPresent:
				if m == nil || m.Name() != c37Name(e.serial) || !m.Address().Equal(c37NodeIDs[e.node].addr) {
					rep("get-wrong-member", "Get(%v) returned member %s, want %s of node%d after %s", addr, c37MemberName(m), c37Name(e.serial), e.node, hist())
				}
			}
		}
	}

	if got := pool.Len(); got != len(present) {
		rep("len-mismatch", "Len()=%d, present members=%d after %s", got, len(present), hist())
	}

	// per-node member lists
	for n := 0; n < c37Nodes; n++ {
		list := pool.VerifNodeMembers(c37NodeIDs[n].addr)

		seen := map[string]int{}
		var stale, dup []string

		for _, m := range list {
			a := c37AddrIndexIn(addrs, m.Addr())
			key := fmt.Sprintf("a%d", a)

			seen[key]++
			if seen[key] == 2 {
				dup = append(dup, key)
			}

			e, ok := present[a]
			if a < 0 || !ok || e.node != n || m.Name() != c37Name(e.serial) || !m.Address().Equal(c37NodeIDs[n].addr) {
				stale = append(stale, fmt.Sprintf("%s/%s", key, m.Name()))
			}
		}

		var missing []string

		for a, e := range present {
			if e.node == n && seen[fmt.Sprintf("a%d", a)] == 0 {
				missing = append(missing, fmt.Sprintf("a%d/%s", a, c37Name(e.serial)))
			}
		}

		sort.Strings(missing)

		listBad := true

		switch {
		case len(missing) > 0:
			rep("node-list-missing", "member list of node%d lacks present member(s) %v (list has %d, want %d) after %s",
				n, missing, len(list), count[n], hist())
		case len(dup) > 0:
			rep("node-list-duplicate", "member list of node%d holds address(es) %v more than once (list has %d, want %d) after %s",
				n, dup, len(list), count[n], hist())
		case len(stale) > 0:
			rep("node-list-stale", "member list of node%d holds %v which is not a present member of that node (list has %d, want %d) after %s",
				n, stale, len(list), count[n], hist())
		default:
			listBad = false
		}

		if listBad {
			// a recorded (known) list defect: the length views below are derived from the same list, same root cause
			continue
		}

		if got := pool.MembersLen(c37NodeIDs[n].addr); got != count[n] {
			rep("memberslen-mismatch", "MembersLen(node%d)=%d, present members of that node=%d after %s", n, got, count[n], hist())
		}

		for a := range addrs {
			e, ok := present[a]
			wantFound := ok && e.node == n
			wantOthers := count[n]

			if wantFound {
				wantOthers--
			}

			l, others, found := pool.MembersLenOthers(c37NodeIDs[n].addr, c37UDPAddrOf(addrs[a], false))
			if l != count[n] || others != wantOthers || found != wantFound {
				rep("memberslenothers-mismatch", "MembersLenOthers(node%d,a%d)=(%d,%d,%v), want (%d,%d,%v) after %s",
					n, a, l, others, found, count[n], wantOthers, wantFound, hist())
			}
		}
	}

	// traversal: every present member exactly once
	visited := map[int]int{}
	var wrong []string

	pool.Traverse(func(m quicmemberlist.Member) bool {
		a := c37AddrIndexIn(addrs, m.Addr())
		visited[a]++

		if e, ok := present[a]; !ok || m.Name() != c37Name(e.serial) {
			wrong = append(wrong, fmt.Sprintf("a%d/%s", a, m.Name()))
		}

		return true
	})

	for a := range present {
		if visited[a] != 1 {
			wrong = append(wrong, fmt.Sprintf("a%d visited %d times", a, visited[a]))
		}
	}

	if len(wrong) > 0 || len(visited) != len(present) {
		sort.Strings(wrong)
		rep("traverse-mismatch", "Traverse visited %v; present=%d visited=%d after %s", wrong, len(present), len(visited), hist())
	}
}

// c37AddrIndexIn maps an address handed back by the table to its pool index, independent of its IP representation.
func c37AddrIndexIn(addrs []c37AddrSpec, addr *net.UDPAddr) int {
	if addr == nil {
		return -1
	}

	for i := range addrs {
		w := c37UDPAddrOf(addrs[i], false)
		if w.Port == addr.Port && w.IP.Equal(addr.IP) {
			return i
		}
	}

	return -1
}

func c37Run(t ev.TB, r *ev.Rec, ops []c37Op) (nontrivial bool, classes []string) {
	pool := quicmemberlist.NewVerifMembersPool()
	present := map[int]c37Entry{}
	cls := map[string]bool{}

	var done []string
	hist := func() string { return "[" + strings.Join(done, " ") + "]" }

	for i, op := range ops {
		serial := i + 1
		prev, wasPresent := present[op.Addr]

		ownerCount := 0
		if wasPresent {
			for _, e := range present {
				if e.node == prev.node {
					ownerCount++
				}
			}
		}

		done = append(done, op.String())

		switch op.Kind {
		case "join":
			id := c37NodeIDs[op.Node]

			m, err := quicmemberlist.NewMember(c37Name(serial), c37UDPAddr(op.Addr, op.Form16), id.addr, id.pub, "", true)
			if err != nil {
				t.Fatalf("harness: NewMember: %v", err)
			}

			added := pool.Set(m)
			present[op.Addr] = c37Entry{node: op.Node, serial: serial}

			if added == wasPresent {
				r.Violation(t, "set-return", "Set returned added=%v for an address that was present=%v after %s", added, wasPresent, hist())
			}

			switch {
			case !wasPresent:
				cls["op:join-new"] = true
			case prev.node == op.Node:
				cls["op:rejoin-same-node"] = true
			default:
				cls["op:rejoin-other-node"] = true
			}

			if wasPresent && ownerCount >= 2 {
				nontrivial = true
				cls["nontrivial:rejoin-at-multi-addr-node"] = true
			}
		case "leave":
			removed, err := pool.Remove(c37UDPAddr(op.Addr, op.Form16))
			delete(present, op.Addr)

			if err != nil {
				r.Violation(t, "remove-error", "Remove returned error %v after %s", err, hist())
			}

			if removed != wasPresent {
				r.Violation(t, "remove-return", "Remove returned removed=%v for an address that was present=%v after %s", removed, wasPresent, hist())
			}

			if wasPresent {
				cls["op:leave-present"] = true
			} else {
				cls["op:leave-unknown"] = true
			}

			if wasPresent && ownerCount >= 2 {
				nontrivial = true
				cls["nontrivial:leave-at-multi-addr-node"] = true
			}
		}

		c37Observe(pool, c37AddrPool[:], present, hist, c37SeqReport(t, r))
	}

	for k := range cls {
		classes = append(classes, k)
	}

	sort.Strings(classes)

	return nontrivial, classes
}

// ---- concurrent part -------------------------------------------------------------------------------------------
//
// Several goroutines apply join / re-join / leave / take-over operations to ONE table at the same time, most of them
// to different addresses of the same node. Operations on different addresses commute, so after all goroutines have
// finished the table must equal the sequential model "address -> last operation on that address": for an address
// used by one goroutine that is the goroutine's own last operation (and every Set/Remove flag follows from the
// goroutine's own order), for an address used by several goroutines it is the last operation of one of them.

// c37CAddrPool: the address universe of the concurrent part. The table is built on util.ShardedMap, whose string hash
// ignores the last character of the key: ports differ in other digits so that the addresses are spread over shards
// (a3 deliberately shares its shard with a0).
var c37CAddrPool = []c37AddrSpec{
	{ip: [4]byte{127, 0, 0, 1}, port: 4000},
	{ip: [4]byte{127, 0, 0, 1}, port: 4010},
	{ip: [4]byte{127, 0, 0, 1}, port: 4100},
	{ip: [4]byte{127, 0, 0, 1}, port: 4001},
	{ip: [4]byte{127, 0, 0, 1}, port: 5000},
	{ip: [4]byte{127, 0, 0, 1}, port: 14000},
	{ip: [4]byte{127, 0, 0, 2}, port: 4000},
	{ip: [4]byte{10, 0, 0, 1}, port: 4020},
	{ip6: true, port: 4030},
	{ip: [4]byte{127, 0, 0, 1}, port: 4110},
	{ip: [4]byte{127, 0, 0, 1}, port: 6000},
	{ip: [4]byte{127, 0, 0, 3}, port: 7010},
}

// c37Sched is the harness-owned scheduler of the concurrent phase.
//
// Scheduling point: a goroutine that reaches one lets the other goroutines run until `want` of their operations have
// completed, or nobody else is left, or `bound` yields have passed (the others may all be blocked on a lock this
// goroutine holds: the bound is a number of yields, never a duration).
//
// Entry order (when the case has one): the operations enter the table in a drawn order; operation k+1 may enter as
// soon as operation k has completed or any running operation has reached a scheduling point, so an operation that
// sits in a scheduling point overlaps with its successors whatever the Go scheduler does. Every wait is for an
// operation earlier in the order, every operation completes after a bounded number of yields: no deadlock.
type c37Sched struct {
	active   atomic.Bool
	progress atomic.Int64
	running  atomic.Int64
	want     int64
	bound    int
	points   atomic.Int64

	mu      sync.Mutex
	gates   []chan struct{} // gates[k] is closed when the k-th operation of the entry order may enter
	allowed int
	entered atomic.Int64
}

// allow lets the first n operations of the entry order enter.
func (s *c37Sched) allow(n int) {
	if len(s.gates) == 0 {
		return
	}

	s.mu.Lock()

	for s.allowed < n && s.allowed < len(s.gates) {
		close(s.gates[s.allowed])
		s.allowed++
	}

	s.mu.Unlock()
}

func (s *c37Sched) enter(k int) {
	if k >= 0 && k < len(s.gates) {
		<-s.gates[k]
		s.entered.Add(1)
	}
}

func (s *c37Sched) completed(k int) {
	s.progress.Add(1)

	if k >= 0 {
		s.allow(k + 2)
	}
}

func (s *c37Sched) yield() {
	s.points.Add(1)
	s.allow(int(s.entered.Load()) + 1)

	c0 := s.progress.Load()

	for i := 0; i < s.bound; i++ {
		if s.progress.Load()-c0 >= s.want || s.running.Load() <= 1 {
			return
		}

		runtime.Gosched()
	}
}

// c37YieldMember is a Member whose Addr() is a scheduling point: while the concurrent phase is active, the n-th call
// (n < 8) yields when bit n of mask is set. Everything else is the wrapped real member.
type c37YieldMember struct {
	quicmemberlist.Member
	sched *c37Sched
	calls *atomic.Uint32
	mask  uint8
}

func (m c37YieldMember) Addr() *net.UDPAddr {
	if m.mask != 0 && m.sched.active.Load() {
		if n := m.calls.Add(1) - 1; n < 8 && m.mask&(1<<n) != 0 {
			m.sched.yield()
		}
	}

	return m.Member.Addr()
}

type c37COp struct {
	c37Op
	Mask uint8 // join: scheduling points of the joining member (see c37YieldMember)
	Pre  int   // yields before the operation starts
}

type c37CCase struct {
	Prefix []c37COp   // single-goroutine joins of distinct addresses before the goroutines start
	Gs     [][]c37COp // one operation list per goroutine
	Order  []int      // entry order of the operations as a sequence of goroutine numbers; empty: free running
	Want   int
}

func (c c37CCase) String() string {
	var b strings.Builder

	one := func(o c37COp) {
		b.WriteString(o.c37Op.String())

		if o.Form16 {
			b.WriteString("'")
		}

		if o.Mask != 0 || o.Pre != 0 {
			fmt.Fprintf(&b, "/y%d.%d", o.Mask, o.Pre)
		}
	}

	b.WriteString("prefix[")

	for i := range c.Prefix {
		if i > 0 {
			b.WriteString(" ")
		}

		one(c.Prefix[i])
	}

	b.WriteString("]")

	for g := range c.Gs {
		fmt.Fprintf(&b, " g%d[", g)

		for i := range c.Gs[g] {
			if i > 0 {
				b.WriteString(" ")
			}

			one(c.Gs[g][i])
		}

		b.WriteString("]")
	}

	if len(c.Order) > 0 {
		fmt.Fprintf(&b, " order=%v", c.Order)
	}

	fmt.Fprintf(&b, " want=%d", c.Want)

	return b.String()
}

func genC37CCase(maxOps int) *rapid.Generator[c37CCase] {
	return rapid.Custom(func(t *rapid.T) c37CCase {
		nA := len(c37CAddrPool)

		g := rapid.IntRange(2, 8).Draw(t, "goroutines")
		hot := rapid.IntRange(0, c37Nodes-1).Draw(t, "hotNode")
		hotPct := rapid.SampledFrom([]int{100, 85, 67, 34}).Draw(t, "hotPct") // how much of the traffic is about one node
		sharePct := rapid.SampledFrom([]int{0, 0, 25}).Draw(t, "sharePct")    // operations on another goroutine's address
		joinPct := rapid.SampledFrom([]int{25, 50, 75}).Draw(t, "joinPct")
		prefixPct := rapid.SampledFrom([]int{50, 75, 100}).Draw(t, "prefixPct") // addresses present before the goroutines start

		node := func() int {
			if rapid.IntRange(0, 99).Draw(t, "hot") < hotPct {
				return hot
			}

			return rapid.IntRange(0, c37Nodes-1).Draw(t, "node")
		}

		mask := func() uint8 { return rapid.SampledFrom([]uint8{0, 1, 1, 1, 2, 3, 5}).Draw(t, "mask") }

		c := c37CCase{Want: rapid.IntRange(1, 2).Draw(t, "want")}

		for a := 0; a < nA; a++ {
			if rapid.IntRange(0, 99).Draw(t, "inPrefix") >= 100-prefixPct { // minimises towards "not in the prefix"
				c.Prefix = append(c.Prefix, c37COp{
					c37Op: c37Op{Kind: "join", Node: node(), Addr: a, Form16: rapid.Bool().Draw(t, "form16")},
					Mask:  mask(),
				})
			}
		}

		c.Gs = make([][]c37COp, g)

		for i := range c.Gs {
			// address a belongs to goroutine a % g
			var own []int

			for a := i; a < nA; a += g {
				own = append(own, a)
			}

			n := rapid.IntRange(1, maxOps).Draw(t, "nops")

			for j := 0; j < n; j++ {
				o := c37COp{Pre: rapid.SampledFrom([]int{0, 0, 1, 2}).Draw(t, "pre")}
				o.Form16 = rapid.Bool().Draw(t, "form16")

				if rapid.IntRange(0, 99).Draw(t, "share") < sharePct {
					o.Addr = rapid.IntRange(0, nA-1).Draw(t, "addr")
				} else {
					o.Addr = rapid.SampledFrom(own).Draw(t, "ownAddr")
				}

				if rapid.IntRange(0, 99).Draw(t, "k") < joinPct {
					o.Kind = "join"
					o.Node = node()
					o.Mask = mask()
				} else {
					o.Kind = "leave"
				}

				c.Gs[i] = append(c.Gs[i], o)
			}
		}

		if rapid.IntRange(0, 3).Draw(t, "freeRunning") != 3 {
			// a drawn interleaving of the per-goroutine orders
			left := make([]int, g)
			for i := range c.Gs {
				left[i] = len(c.Gs[i])
			}

			for {
				var cand []int

				for i := range left {
					if left[i] > 0 {
						cand = append(cand, i)
					}
				}

				if len(cand) == 0 {
					break
				}

				next := cand[0]
				if len(cand) > 1 {
					next = cand[rapid.IntRange(0, len(cand)-1).Draw(t, "next")]
				}

				left[next]--
				c.Order = append(c.Order, next)
			}
		}

		return c
	})
}

type c37CResult struct {
	flag  bool
	err   error
	panic string
}

// c37RunConcurrent runs one concurrent case. bound = number of yields a scheduling point waits at most.
func c37RunConcurrent(t ev.TB, r *ev.Rec, c c37CCase, bound int) (nontrivial bool, classes []string) {
	addrs := c37CAddrPool
	sched := &c37Sched{want: int64(c.Want), bound: bound}
	pool := quicmemberlist.NewVerifMembersPool()
	present := map[int]c37Entry{}
	cls := map[string]bool{}

	serial := 0

	newMember := func(o c37COp) quicmemberlist.Member {
		serial++

		id := c37NodeIDs[o.Node]

		m, err := quicmemberlist.NewMember(c37Name(serial), c37UDPAddrOf(addrs[o.Addr], o.Form16), id.addr, id.pub, "", true)
		if err != nil {
			t.Fatalf("harness: NewMember: %v", err)
		}

		return c37YieldMember{Member: m, sched: sched, calls: &atomic.Uint32{}, mask: o.Mask}
	}

	hist := func() string { return c.String() }

	// single-goroutine prefix
	for _, o := range c.Prefix {
		m := newMember(o)

		_, wasPresent := present[o.Addr]
		if added := pool.Set(m); added == wasPresent {
			r.Violation(t, "set-return", "Set returned added=%v for an address that was present=%v in the prefix of %s", added, wasPresent, hist())
		}

		present[o.Addr] = c37Entry{node: o.Node, serial: serial}
	}

	c37Observe(pool, addrs, present, func() string { return "the prefix of " + hist() }, c37SeqReport(t, r))

	// the goroutines
	members := make([][]quicmemberlist.Member, len(c.Gs))
	serials := make([][]int, len(c.Gs))
	results := make([][]c37CResult, len(c.Gs))

	for g := range c.Gs {
		members[g] = make([]quicmemberlist.Member, len(c.Gs[g]))
		serials[g] = make([]int, len(c.Gs[g]))
		results[g] = make([]c37CResult, len(c.Gs[g]))

		for i, o := range c.Gs[g] {
			if o.Kind == "join" {
				members[g][i] = newMember(o)
				serials[g][i] = serial
			}
		}
	}

	// entry[g][i]: position of operation i of goroutine g in the entry order (-1: free running)
	entry := make([][]int, len(c.Gs))
	for g := range c.Gs {
		entry[g] = make([]int, len(c.Gs[g]))
		for i := range entry[g] {
			entry[g][i] = -1
		}
	}

	if len(c.Order) > 0 {
		next := make([]int, len(c.Gs))

		for k, g := range c.Order {
			entry[g][next[g]] = k
			next[g]++
		}

		sched.gates = make([]chan struct{}, len(c.Order))
		for k := range sched.gates {
			sched.gates[k] = make(chan struct{})
		}
	}

	start := make(chan struct{})

	var wg sync.WaitGroup

	sched.running.Store(int64(len(c.Gs)))
	sched.active.Store(true)

	for g := range c.Gs {
		wg.Add(1)

		go func(g int) {
			defer wg.Done()
			defer sched.running.Add(-1)

			i := 0

			defer func() {
				if x := recover(); x != nil {
					results[g][i].panic = fmt.Sprint(x)

					sched.allow(len(sched.gates)) // nobody waits for this goroutine's remaining operations
				}
			}()

			<-start

			for ; i < len(c.Gs[g]); i++ {
				o := c.Gs[g][i]

				sched.enter(entry[g][i])

				for k := 0; k < o.Pre; k++ {
					runtime.Gosched()
				}

				switch o.Kind {
				case "join":
					results[g][i].flag = pool.Set(members[g][i])
				default:
					results[g][i].flag, results[g][i].err = pool.Remove(c37UDPAddrOf(addrs[o.Addr], o.Form16))
				}

				sched.completed(entry[g][i])
			}
		}(g)
	}

	sched.allow(1)
	close(start)
	wg.Wait()
	sched.active.Store(false) // observation below must not yield

	r.Class("scheduling-points", sched.points.Load())

	for g := range results {
		for i := range results[g] {
			if p := results[g][i].panic; p != "" {
				r.Violation(t, "panic-in-concurrent-update", "goroutine g%d panicked in %s: %s; case %s", g, c.Gs[g][i].c37Op, p, hist())
			}
		}
	}

	// which goroutines use which address
	users := make([][]int, len(addrs))

	for g := range c.Gs {
		for _, o := range c.Gs[g] {
			if l := users[o.Addr]; len(l) == 0 || l[len(l)-1] != g {
				users[o.Addr] = append(users[o.Addr], g)
			}
		}
	}

	type nodeUse struct{ updates, leaves map[int]bool } // node -> goroutines

	uses := [c37Nodes]nodeUse{}
	for n := range uses {
		uses[n] = nodeUse{updates: map[int]bool{}, leaves: map[int]bool{}}
	}

	final := map[int]c37Entry{}
	for a, e := range present {
		final[a] = e
	}

	for a := range addrs {
		type outcome struct {
			e       c37Entry
			present bool
		}

		var candidates []outcome

		for _, g := range users[a] {
			cur, isPresent := present[a] // the goroutine's own view: exact when it is the only user of the address

			for i, o := range c.Gs[g] {
				if o.Addr != a {
					continue
				}

				res := results[g][i]

				if isPresent {
					uses[cur.node].updates[g] = true
				}

				switch o.Kind {
				case "join":
					uses[o.Node].updates[g] = true

					if isPresent && cur.node != o.Node {
						cls["conc:take-over"] = true
					}

					if len(users[a]) == 1 && res.flag == isPresent {
						r.Violation(t, "set-return-after-concurrent-update",
							"g%d: Set of %s returned added=%v for an address only g%d uses and that was present=%v; case %s",
							g, o.c37Op, res.flag, g, isPresent, hist())
					}

					cur, isPresent = c37Entry{node: o.Node, serial: serials[g][i]}, true
				default:
					if isPresent {
						uses[cur.node].leaves[g] = true
					}

					if res.err != nil {
						r.Violation(t, "remove-error-after-concurrent-update", "g%d: Remove of %s returned error %v; case %s", g, o.c37Op, res.err, hist())
					}

					if len(users[a]) == 1 && res.flag != isPresent {
						r.Violation(t, "remove-return-after-concurrent-update",
							"g%d: Remove of %s returned removed=%v for an address only g%d uses and that was present=%v; case %s",
							g, o.c37Op, res.flag, g, isPresent, hist())
					}

					isPresent = false
				}
			}

			candidates = append(candidates, outcome{e: cur, present: isPresent})
		}

		switch len(candidates) {
		case 0:
		case 1:
			if candidates[0].present {
				final[a] = candidates[0].e
			} else {
				delete(final, a)
			}
		default:
			// several goroutines used the address: the last operation on it is the last operation of one of them
			cls["conc:shared-address"] = true

			m, found := pool.Get(c37UDPAddrOf(addrs[a], false))
			explained := false

			var ss []string

			for _, o := range candidates {
				switch {
				case !o.present:
					ss = append(ss, "absent")

					if !found {
						explained = true

						delete(final, a)
					}
				default:
					ss = append(ss, c37Name(o.e.serial))

					if found && m != nil && m.Name() == c37Name(o.e.serial) {
						explained = true
						final[a] = o.e
					}
				}
			}

			if !explained {
				r.Violation(t, "address-state-unexplained-after-concurrent-update",
					"Get(a%d) found=%v member=%s, but the last operations of the goroutines on a%d leave one of %v; case %s",
					a, found, c37MemberName(m), a, ss, hist())
			}
		}
	}

	for n := range uses {
		if len(uses[n].updates) >= 2 {
			nontrivial = true
			cls["nontrivial:conc-node-list-updated-by-several-goroutines"] = true
		}

		if len(uses[n].leaves) >= 2 {
			cls["conc:leaves-of-one-node-by-several-goroutines"] = true
		}
	}

	cls[fmt.Sprintf("conc:goroutines=%d", len(c.Gs))] = true

	// What is observed after a concurrent phase differs from run to run; the reported message is a function of the case
	// only (so that the case can be reproduced and minimised), the observations go to the log.
	var exp []string

	for a := range addrs {
		if e, ok := final[a]; ok {
			exp = append(exp, fmt.Sprintf("a%d=%s/node%d", a, c37Name(e.serial), e.node))
		}
	}

	var clauses, observed []string

	c37Observe(pool, addrs, final, func() string { return "all goroutines finished" }, func(clause, format string, a ...any) {
		clauses = append(clauses, clause)
		observed = append(observed, clause+": "+fmt.Sprintf(format, a...))
	})

	if len(clauses) > 0 {
		sigs := map[string]bool{}
		for _, cl := range clauses {
			sigs[c37ConcSig(cl)] = true
		}

		// the per-node list signature first: the other views are compared with the same final set
		sig := c37ConcSig(clauses[0])
		if sigs["node-list-stale-after-concurrent-update"] {
			sig = "node-list-stale-after-concurrent-update"
		}

		for _, o := range observed {
			t.Logf("observed (this run): %s", o)
		}

		r.Violation(t, sig, "after all goroutines had finished the table disagrees with the final present set %v "+
			"(per address the last operation on it; the observed views are in the log, they differ between interleavings); case %s",
			exp, hist())
	}

	for k := range cls {
		classes = append(classes, k)
	}

	sort.Strings(classes)

	return nontrivial, classes
}

// c37ConcSig: after a concurrent phase every disagreement of a per-node list view with the final present set has one
// root cause (an update of the list did not take a concurrent update into account).
func c37ConcSig(s string) string {
	switch s {
	case "node-list-missing", "node-list-duplicate", "node-list-stale", "memberslen-mismatch", "memberslenothers-mismatch":
		return "node-list-stale-after-concurrent-update"
	default:
		return s + "-after-concurrent-update"
	}
}

func c37ConcurrentProperty(r *ev.Rec, maxOps, bound int, mode string) func(rt *rapid.T) {
	return func(rt *rapid.T) {
		c := genC37CCase(maxOps).Draw(rt, "case")

		// every table draws its own shard seed (two addresses or nodes may share a shard lock in one table and not in the
		// next, which changes what can overlap): the case runs on two fresh tables
		var (
			nontrivial bool
			classes    []string
		)

		for k := 0; k < 2; k++ {
			nontrivial, classes = c37RunConcurrent(rt, r, c, bound)
		}

		r.Case(mode+" "+c.String(), nontrivial, append(classes, "conc:"+mode)...)

		if nontrivial && r.WantSample() {
			r.Sample(map[string]any{"mode": mode, "case": c.String()})
		}
	}
}

func TestC37(t *testing.T) {
	r := ev.Start(t, "C37")
	defer r.Finish()
	r.Rule("(1) single goroutine: histories of 1..30 (thorough 1..60) operations join(node,addr)/leave(addr) over 3 nodes x 6 distinct UDP addresses " +
		"(drawn join ratio 50-80%, IPv4 addresses in 4- or 16-byte form), including re-join of a present address by the same or another node " +
		"and leave of an unknown address; after every operation Exists/Get/Len/MembersLen/MembersLenOthers/Traverse and the stored per-node lists " +
		"are compared with a map model address->last joined member. non-trivial: a node with >=2 present addresses experienced a leave or a " +
		"re-join of one of them; distinct by operation sequence. " +
		"(2) concurrent: after a single-goroutine prefix of joins, 2..8 goroutines apply 1..4 (thorough 1..6) join/re-join/leave/take-over " +
		"operations each to one table at the same time, over 3 nodes x 12 addresses spread over the table's shards; 34-100% of the traffic is about " +
		"one node, every address belongs to one goroutine except for a drawn 0/25% of operations; members are wrappers whose Addr() is a " +
		"harness scheduling point (yield until other goroutines completed 1-2 operations, bounded by a yield count); in 3 of 4 cases the " +
		"operations enter the table in a drawn interleaving of the per-goroutine orders (the next one enters when its predecessor has completed " +
		"or reached a scheduling point), otherwise the goroutines run freely; once with GOMAXPROCS=1 " +
		"(the scheduling points decide the interleaving) and once with the default parallelism. After all goroutines have finished the same " +
		"read methods are compared with the final present set = per address the last operation on it (own order for an address of one goroutine, " +
		"the last operation of one of its users otherwise); Set/Remove flags of single-user addresses follow the goroutine's own order. " +
		"non-trivial: >=2 goroutines updated the member list of the same node; distinct by prefix + per-goroutine operation lists + scheduling points")
	r.Floor(200)
	r.Assume("the table is keyed by UDP address (Exists/Get/Remove take an address): a join at a present address replaces the member there",
		"Set's added flag and Remove's removed flag are treated as presence reports (whenLeft acts on the latter)",
		"the table is a concurrent structure (two lock-protected sharded maps, used from memberlist event callbacks): join/leave of different "+
			"addresses commute, so a concurrent history must end in the state of a sequential order of its operations; Memberlist.whenJoined/whenLeft "+
			"additionally hold joinedLock today",
		"no oracle clause depends on timing: scheduling points only make overlaps likely, the final-state comparison holds for every interleaving")

	maxSteps := r.N(30, 60)

	r.Checks(1500, 50000)
	r.ShrinkTime(20 * time.Second)
	rapid.Check(t, func(rt *rapid.T) {
		ops := genC37Ops(maxSteps).Draw(rt, "ops")

		nontrivial, classes := c37Run(rt, r, ops)

		ss := make([]string, len(ops))
		for i := range ops {
			ss[i] = ops[i].String()
			if ops[i].Form16 {
				ss[i] += "'"
			}
		}

		r.Case(strings.Join(ss, " "), nontrivial, classes...)
		r.Class("operations", int64(len(ops)))

		if nontrivial && r.WantSample() {
			r.Sample(map[string]any{"ops": ss})
		}
	})

	maxOps := r.N(4, 6)

	// concurrent, one P: a goroutine runs until it blocks or reaches a scheduling point, so the drawn scheduling points
	// decide which updates overlap
	func() {
		defer runtime.GOMAXPROCS(runtime.GOMAXPROCS(1))

		r.Checks(500, 20000)
		r.ShrinkTime(10 * time.Second)
		rapid.Check(t, c37ConcurrentProperty(r, maxOps, 24, "one-p"))
	}()

	// concurrent, default parallelism
	r.Checks(250, 10000)
	rapid.Check(t, c37ConcurrentProperty(r, maxOps, 400, "multi-p"))
}
