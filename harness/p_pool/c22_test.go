package p_pool

import (
	"context"
	"fmt"
	"sort"
	"strings"
	"testing"
	"time"

	"github.com/spikeekips/mitum/base"
	"github.com/spikeekips/mitum/isaac"
	isaacdatabase "github.com/spikeekips/mitum/isaac/database"
	leveldbstorage "github.com/spikeekips/mitum/storage/leveldb"
	"github.com/spikeekips/mitum/util"
	"github.com/spikeekips/mitum/util/valuehash"
	"pgregory.net/rapid"
	"verif/internal/ev"
)

// C22: the operation pool hands out a valid, de-duplicated operation set. The model records insertion order, which
// operations a filter rejected and which operations were handed out; it does not mirror the scan algorithm.

const (
	c22Facts = 6
	c22Keys  = 3
)

type c22Op struct {
	idx    int // insertion index (first SetOperation)
	fact   int
	signer int
	op     base.Operation
}

func (o c22Op) String() string { return fmt.Sprintf("#%d(f%d,k%d)", o.idx, o.fact, o.signer) }

type c22Filter struct {
	kind   string // all | nil | none | fact | signer | ops | alternate
	fact   int
	signer int
	ops    map[int]bool // by insertion index
	parity int
}

func (f c22Filter) String() string {
	switch f.kind {
	case "fact":
		return fmt.Sprintf("reject-fact-f%d", f.fact)
	case "signer":
		return fmt.Sprintf("reject-signer-k%d", f.signer)
	case "ops":
		var s []int
		for i := range f.ops {
			s = append(s, i)
		}

		sort.Ints(s)

		return fmt.Sprintf("reject-ops%v", s)
	case "alternate":
		return fmt.Sprintf("reject-every-other(%d)", f.parity)
	default:
		return f.kind
	}
}

// accepts is the verdict of a deterministic filter; ok=false for the stateful alternating filter.
func (f c22Filter) accepts(o c22Op) (verdict, ok bool) {
	switch f.kind {
	case "all", "nil":
		return true, true
	case "none":
		return false, true
	case "fact":
		return o.fact != f.fact, true
	case "signer":
		return o.signer != f.signer, true
	case "ops":
		return !f.ops[o.idx], true
	default:
		return false, false
	}
}

type c22World struct {
	t     ev.TB // *rapid.T, or *testing.T in the regression table
	r     *ev.Rec
	st    *leveldbstorage.Storage
	pool  *isaacdatabase.TempPool
	cache int

	facts []isaac.DummyOperationFact
	keys  []base.Privatekey

	ops      []c22Op
	byHash   map[string]int // operation hash -> insertion index
	rejected map[int]bool   // rejected by a filter in a completed call
	handed   map[int]bool   // returned by a completed call
	height   base.Height
	lastAdd  time.Time

	log        []string
	nontrivial bool
	classes    map[string]bool
	stop       bool // a known finding made the rest of the history meaningless
}

// violate reports a violation; when the signature is a recorded known finding the call returns, and the rest of this
// history is abandoned (the pool state behind a defect is not a state the model can speak about).
func (w *c22World) violate(sig, format string, a ...any) {
	w.t.Helper()
	w.r.Violation(w.t, sig, format, a...)
	w.stop = true
}

func (w *c22World) history() string {
	var s []string
	for _, o := range w.ops {
		s = append(s, o.String())
	}

	return "added[" + strings.Join(s, " ") + "] history: " + strings.Join(w.log, " ; ")
}

func (w *c22World) add(fact, signer int) {
	// the pool orders by a nanosecond timestamp: keep adds >= 2 microseconds apart (input-domain decision, DESIGN section 5)
	for time.Since(w.lastAdd) < 2*time.Microsecond {
	}

	op, err := isaac.NewDummyOperation(w.facts[fact], w.keys[signer], poolNetworkID)
	if err != nil {
		w.t.Fatalf("new operation: %v", err)
	}

	o := c22Op{idx: len(w.ops), fact: fact, signer: signer, op: op}
	w.log = append(w.log, "add "+o.String())

	var added bool

	if noPanic(w.t, w.r, "panic-set-operation", "SetOperation", func() {
		added, err = w.pool.SetOperation(context.Background(), op)
	}) {
		w.stop = true

		return
	}

	w.lastAdd = time.Now()

	if err != nil {
		w.t.Fatalf("SetOperation: %v", err)
	}

	if !added {
		w.violate("new-operation-refused", "SetOperation of a new operation %s returned false; %s", o, w.history())
	}

	w.ops = append(w.ops, o)
	w.byHash[op.Hash().String()] = o.idx
}

// stored reports whether the body of o is still in the pool's storage. OperationBytes is asked because Operation() also
// answers from the LRU operation cache, which the cleanup does not invalidate.
func (w *c22World) stored(o c22Op) bool {
	_, _, body, found, err := w.pool.OperationBytes(context.Background(), o.op.Hash())
	if err != nil {
		w.t.Fatalf("OperationBytes: %v", err)
	}

	return found && len(body) > 0
}

func (w *c22World) readd(i int) {
	o := w.ops[i]
	if !w.stored(o) {
		return // cleaned up by the removal daemon step: submitting it again is a new submission, not a repeat
	}

	// settle (two identical scans give the same answer once superseded duplicates were retired), re-add, scan again
	full := c22Filter{kind: "all"}
	_ = w.hashes(64, full, false)

	if w.stop {
		return
	}

	before := w.hashes(64, full, false)
	if w.stop {
		return
	}

	w.log = append(w.log, "re-add "+o.String())

	added, err := w.pool.SetOperation(context.Background(), o.op)
	if err != nil {
		w.t.Fatalf("SetOperation: %v", err)
	}

	if added {
		w.violate("readd-accepted", "SetOperation of the already stored operation %s returned true; %s", o, w.history())
	}

	after := w.hashes(64, full, false)
	if w.stop {
		return
	}

	if fmt.Sprint(before) != fmt.Sprint(after) {
		w.violate("readd-changes-result", "re-adding %s changed the handed-out set from %v to %v; %s", o, before, after, w.history())
	}
}

// hashes runs one OperationHashes call and checks the result; it returns the insertion indexes handed out.
func (w *c22World) hashes(limit int, f c22Filter, advance bool) []int {
	if advance {
		w.height++
	}

	type seen struct {
		idx     int
		verdict bool
	}

	var consulted []seen

	verdictOf := map[int]bool{}
	calls := 0

	filter := func(meta isaac.PoolOperationRecordMeta) (bool, error) {
		i, ok := w.byHash[meta.Operation().String()]
		if !ok {
			w.t.Fatalf("filter consulted for an operation that was never added: %s", meta.Operation())
		}

		if !meta.Fact().Equal(w.ops[i].op.Fact().Hash()) {
			w.violate("record-fact-mismatch", "the pool record of %s carries fact hash %s, the operation's fact is %s; %s",
				w.ops[i], meta.Fact(), w.ops[i].op.Fact().Hash(), w.history())
		}

		var v bool

		if d, ok := f.accepts(w.ops[i]); ok {
			v = d
		} else {
			v = (calls+f.parity)%2 == 0
		}

		calls++

		consulted = append(consulted, seen{i, v})
		verdictOf[i] = v

		return v, nil
	}

	var ff func(isaac.PoolOperationRecordMeta) (bool, error)
	if f.kind != "nil" {
		ff = filter
	}

	call := fmt.Sprintf("OperationHashes(height %d, limit %d, %s)", w.height, limit, f)
	w.log = append(w.log, call)

	var res [][2]util.Hash

	var err error

	if func() (panicked bool) {
		defer func() {
			if x := recover(); x != nil {
				if isRapidUnwind(x) {
					panic(x)
				}

				// name the root cause: more removals (filter rejections + superseded duplicates) than limit?
				removals := 0
				accepted := map[int]int{}

				for _, s := range consulted {
					if !s.verdict {
						removals++

						continue
					}

					accepted[w.ops[s.idx].fact]++
					if accepted[w.ops[s.idx].fact] > 1 {
						removals++
					}
				}

				sig := "panic-operation-hashes"
				if removals > limit {
					sig = "panic-more-removals-than-limit"
				}

				panicked = true

				w.violate(sig, "%s panicked after consulting the filter for %d operations (%d to be removed): %v; %s", call, len(consulted), removals, x, w.history())
			}
		}()

		res, err = w.pool.OperationHashes(context.Background(), w.height, uint64(limit), ff)

		return false
	}() {
		w.stop = true

		return nil
	}

	if err != nil {
		w.t.Fatalf("%s: %v", call, err)
	}

	// ---- non-trivial rule
	scannedPerFact := map[int]int{}
	rejectedNow := 0

	for _, s := range consulted {
		scannedPerFact[w.ops[s.idx].fact]++

		if !s.verdict {
			rejectedNow++
		}
	}

	multi := 0

	for _, n := range scannedPerFact {
		if n >= 2 {
			multi++
		}
	}

	if multi >= 2 {
		w.nontrivial = true
		w.classes["scan:2+facts-submitted-2+times"] = true
	}

	if rejectedNow > limit {
		w.nontrivial = true
		w.classes["scan:more-rejected-than-limit"] = true
	}

	// ---- root-cause naming (never used for the verdict): the accepted operations in scan order show whether this scan
	// de-duplicated a fact whose entry was not the last one and later met a fact whose entry had been shifted
	// (pattern a..b..a..b): the situation in which a fact->position index that is not re-based goes stale.
	shifted := false
	{
		var seq []int

		for _, s := range consulted {
			if s.verdict {
				seq = append(seq, w.ops[s.idx].fact)
			}
		}

		if f.kind == "nil" { // no filter to observe the scan through: every operation no call has rejected, in insertion order
			for _, o := range w.ops {
				if !w.rejected[o.idx] {
					seq = append(seq, o.fact)
				}
			}
		}

	pattern:
		for a := 0; a < len(seq); a++ {
			for b := a + 1; b < len(seq); b++ {
				if seq[b] == seq[a] {
					continue
				}

				for c := b + 1; c < len(seq); c++ {
					if seq[c] != seq[a] {
						continue
					}

					for d := c + 1; d < len(seq); d++ {
						if seq[d] == seq[b] {
							shifted = true

							break pattern
						}
					}
				}
			}
		}
	}

	if shifted {
		w.classes["scan:dedup-shifts-later-entry"] = true
	}

	dedupSig := func(plain string) string {
		if shifted {
			return "dedup-index-stale-after-shift"
		}

		return plain
	}

	// ---- invariants of the result
	if len(res) > limit {
		w.violate("over-limit", "%s returned %d entries; %s", call, len(res), w.history())
	}

	var out []int

	seenOp, seenFact := map[int]bool{}, map[int]int{}
	newest := -1

	for _, e := range res {
		if e[0] == nil || e[1] == nil {
			w.violate("nil-entry", "%s returned an entry with a nil hash (%d entries); %s", call, len(res), w.history())

			continue
		}

		i, ok := w.byHash[e[0].String()]
		if !ok {
			w.violate("unknown-entry", "%s returned operation %s that was never added; %s", call, e[0], w.history())

			continue
		}

		o := w.ops[i]
		out = append(out, i)

		if i > newest {
			newest = i
		}

		if !e[1].Equal(o.op.Fact().Hash()) {
			w.violate("entry-fact-mismatch", "%s returned %s with fact hash %s, its fact is %s; %s", call, o, e[1], o.op.Fact().Hash(), w.history())
		}

		if seenOp[i] {
			w.violate("duplicate-operation-returned", "%s returned %s twice: %v; %s", call, o, out, w.history())
		}

		seenOp[i] = true
	}

	for _, i := range out {
		o := w.ops[i]

		if j, dup := seenFact[o.fact]; dup {
			w.violate(dedupSig("duplicate-fact-returned"), "%s returned %s and %s, two operations with the same fact (returned: %s); %s",
				call, w.ops[j], o, w.descr(out), w.history())
		}

		seenFact[o.fact] = i

		rop, found, err := w.pool.Operation(context.Background(), o.op.Hash())
		if err != nil {
			w.t.Fatalf("Operation: %v", err)
		}

		switch {
		case !found || rop == nil:
			w.violate("entry-not-stored", "%s returned %s, which Operation() does not find; %s", call, o, w.history())
		case !rop.Fact().Hash().Equal(o.op.Fact().Hash()) || !rop.Hash().Equal(o.op.Hash()):
			w.violate("entry-stored-differs", "%s returned %s, Operation() finds a different operation for that hash; %s", call, o, w.history())
		}

		if f.kind != "nil" {
			switch v, wasConsulted := verdictOf[i]; {
			case !wasConsulted:
				w.violate("filter-not-consulted", "%s returned %s without consulting the filter for it; %s", call, o, w.history())
			case !v:
				w.violate("filtered-entry-returned", "%s returned %s although the filter rejected it in this call; %s", call, o, w.history())
			}
		}

		if w.rejected[i] {
			w.violate("rejected-operation-returned-again", "%s returned %s, which an earlier filter had rejected; %s", call, o, w.history())
		}
	}

	// ---- most recent wins (weakest sound form): a full result may have stopped the scan right after its newest entry;
	// a result below the limit cannot have been cut short.
	horizon := newest
	if len(res) < limit {
		horizon = len(w.ops)
	}

	for _, i := range out {
		e := w.ops[i]

		var newer []c22Op // stored, never rejected, filter-passing operations of the same fact added after e, inside the horizon

		for _, o := range w.ops {
			if o.fact != e.fact || o.idx <= e.idx {
				continue
			}

			if o.idx > horizon {
				w.classes["newer-duplicate-beyond-limit-cut"] = true

				continue
			}

			if w.rejected[o.idx] {
				continue
			}

			if v, wasConsulted := verdictOf[o.idx]; wasConsulted && !v {
				continue
			}

			if d, ok := f.accepts(o); ok && !d {
				continue
			} else if !ok {
				if _, wasConsulted := verdictOf[o.idx]; !wasConsulted {
					continue // stateful filter: no verdict exists for an operation that was not consulted
				}
			}

			if !w.stored(o) {
				continue
			}

			newer = append(newer, o)
		}

		if len(newer) == 0 {
			continue
		}

		sig := dedupSig("older-duplicate-chosen")

		var desc []string

		for _, o := range newer {
			_, wasConsulted := verdictOf[o.idx]
			desc = append(desc, fmt.Sprintf("%s(handed out before: %v, scanned now: %v)", o, w.handed[o.idx], wasConsulted || f.kind == "nil"))

			if !shifted && !wasConsulted && f.kind != "nil" && w.handed[o.idx] {
				// a newer operation was handed out by an earlier call and has vanished from the scan since
				sig = "chosen-duplicate-retired-instead-of-superseded"
			}
		}

		w.violate(sig, "%s returned %s for fact f%d although more recently added operation(s) of that fact are stored, were never rejected and pass the filter: %s; returned: %s; %s",
			call, e, e.fact, strings.Join(desc, ", "), w.descr(out), w.history())
	}

	if w.stop {
		return out
	}

	// ---- the call completed: record rejections and hand-outs
	for _, s := range consulted {
		if !s.verdict {
			w.rejected[s.idx] = true
		}
	}

	for _, i := range out {
		w.handed[i] = true
	}

	w.log[len(w.log)-1] = call + "=" + w.descr(out)

	// behind a recorded (known) de-duplication defect the pool has retired the wrong operations without any visible
	// symptom yet: the model cannot speak about later calls of this history.
	dedups := false
	accFacts := map[int]bool{}

	for _, s := range consulted {
		if s.verdict {
			if accFacts[w.ops[s.idx].fact] {
				dedups = true
			}

			accFacts[w.ops[s.idx].fact] = true
		}
	}

	if f.kind == "nil" {
		dedups = true
	}

	if (shifted && w.r.IsKnown("dedup-index-stale-after-shift")) || (dedups && w.r.IsKnown("chosen-duplicate-retired-instead-of-superseded")) {
		w.stop = true
	}

	return out
}

func (w *c22World) descr(out []int) string {
	var s []string
	for _, i := range out {
		s = append(s, w.ops[i].String())
	}

	return "[" + strings.Join(s, " ") + "]"
}

func (w *c22World) drawFilter(t *rapid.T) c22Filter {

	switch kind := rapid.SampledFrom([]string{"all", "all", "all", "nil", "none", "fact", "signer", "ops", "ops", "alternate"}).Draw(t, "filter"); kind {
	case "fact":
		return c22Filter{kind: kind, fact: rapid.IntRange(0, c22Facts-1).Draw(t, "filterFact")}
	case "signer":
		return c22Filter{kind: kind, signer: rapid.IntRange(0, c22Keys-1).Draw(t, "filterSigner")}
	case "ops":
		f := c22Filter{kind: kind, ops: map[int]bool{}}

		for i := range w.ops {
			if rapid.IntRange(0, 2).Draw(t, "filterOp") == 0 {
				f.ops[i] = true
			}
		}

		return f
	case "alternate":
		return c22Filter{kind: kind, parity: rapid.IntRange(0, 1).Draw(t, "parity")}
	default:
		return c22Filter{kind: kind}
	}
}

func TestC22(t *testing.T) {
	r := ev.Start(t, "C22")
	defer r.Finish()
	r.Rule("state machine over a real TempPool (mem leveldb, operation cache 0 or 3): 12 (quick) / 20 (thorough) drawn steps of SetOperation of dummy operations " +
		"(6 facts, re-signed by 3 keys: same fact, distinct operation hash), re-adding a stored operation, OperationHashes(limit 1..12, filter in {accept all, nil, reject all, " +
		"by fact, by signer, by operation set, every other}) at a non-decreasing height, pool reopen over the same storage, and the removed-operation cleanup (hook H4). " +
		"Every result is checked for: length <= limit; pairwise distinct operations and facts; each entry stored (Operation() finds it, same fact), accepted by the filter in this call, " +
		"never rejected by an earlier call; no entry older than another stored, never-rejected, filter-passing operation of the same fact inside the scanned horizon; " +
		"re-add returns false and leaves the handed-out set unchanged; no panic. " +
		"non-trivial: one scan saw >= 2 facts each submitted >= 2 times, or more filter rejections than the limit; distinct by the step history")
	r.Floor(100)
	r.Assume("adds are >= 2 microseconds apart (the pool orders by a nanosecond timestamp)",
		"limit >= 1 (the only caller returns early for MaxOperationsInProposal < 1); filters never return an error",
		"'most recently added' is judged only inside the horizon a limit-bounded scan must have covered (newest returned entry; everything when the result is below the limit)",
		"an operation whose body the cleanup daemon has deleted is not re-added")

	encs, enc := poolEncoders(t)
	keys, _ := poolFixtures(t)

	var facts []isaac.DummyOperationFact
	for i := 0; i < c22Facts; i++ {
		facts = append(facts, isaac.NewDummyOperationFact([]byte(fmt.Sprintf("verif-c22-fact-%d", i)), valuehash.NewSHA256([]byte(fmt.Sprintf("value-%d", i)))))
	}

	newWorld := func(tb ev.TB, cache int, height base.Height) (*c22World, func()) {
		st := leveldbstorage.NewMemStorage()
		w := &c22World{
			t: tb, r: r, st: st, facts: facts, keys: keys[:c22Keys],
			byHash: map[string]int{}, rejected: map[int]bool{}, handed: map[int]bool{}, classes: map[string]bool{},
			cache: cache, height: height,
		}
		w.pool = newTempPool(tb, st, encs, enc, cache)

		return w, func() {
			_ = w.pool.Close()
			_ = st.Close()
		}
	}

	// ---- regression table: the shrunk histories of the defects this check found (plain code, no library)
	t.Run("regress", func(t *testing.T) {
		all, none := c22Filter{kind: "all"}, c22Filter{kind: "none"}

		table := []struct {
			name string
			run  func(w *c22World)
		}{
			{"two rejected operations, limit 1", func(w *c22World) {
				w.add(0, 0)
				w.add(0, 0)
				w.hashes(1, none, false)
			}},
			{"facts a b a b in one scan", func(w *c22World) {
				w.add(0, 0)
				w.add(1, 0)
				w.add(0, 1)
				w.add(1, 1)
				w.hashes(10, all, false)
			}},
			{"facts a b a b a in one scan", func(w *c22World) {
				w.add(0, 0)
				w.add(1, 0)
				w.add(0, 0)
				w.add(1, 0)
				w.add(0, 0)
				w.hashes(64, all, true)
			}},
			{"duplicate fact, two scans", func(w *c22World) {
				w.add(0, 0)
				w.add(0, 0)
				w.hashes(3, all, false)
				w.hashes(64, all, true)
			}},
		}

		for i, c := range table {
			if !r.Mine(i) {
				continue
			}

			w, closef := newWorld(t, 0, 0)
			c.run(w)
			closef()

			r.Case("regress:"+c.name, true, "regression-table")
		}
	})

	if t.Failed() {
		return
	}

	steps := r.N(12, 20)
	r.Checks(400, 20000)
	r.ShrinkTime(12 * time.Second)

	rapid.Check(t, func(rt *rapid.T) {
		w, closef := newWorld(rt, rapid.SampledFrom([]int{0, 3}).Draw(rt, "opcache"), base.Height(rapid.IntRange(0, 4).Draw(rt, "startHeight")))
		defer closef()

		// a burst of adds first (so scans have something to de-duplicate), then drawn steps
		for i := rapid.IntRange(0, 8).Draw(rt, "burst"); i > 0 && !w.stop; i-- {
			w.add(rapid.IntRange(0, c22Facts-1).Draw(rt, "fact"), rapid.IntRange(0, c22Keys-1).Draw(rt, "key"))
		}

		for i := 0; i < steps && !w.stop; i++ {
			kind := rapid.SampledFrom([]string{"nop", "add", "add", "add", "add", "add", "hashes", "hashes", "hashes", "hashes", "readd", "reopen", "clean"}).Draw(rt, "step")
			if kind == "readd" && len(w.ops) == 0 {
				kind = "add"
			}

			if kind == "nop" { // lets the shrinker delete steps
				continue
			}

			w.classes["step:"+kind] = true

			switch kind {
			case "add":
				w.add(rapid.IntRange(0, c22Facts-1).Draw(rt, "fact"), rapid.IntRange(0, c22Keys-1).Draw(rt, "key"))
			case "hashes":
				limit := rapid.IntRange(1, 12).Draw(rt, "limit")
				f := w.drawFilter(rt)
				w.classes["filter:"+f.kind] = true
				w.hashes(limit, f, rapid.Bool().Draw(rt, "nextHeight"))
			case "readd":
				w.readd(rapid.IntRange(0, len(w.ops)-1).Draw(rt, "readdWhich"))
			case "reopen":
				if err := w.pool.Close(); err != nil {
					rt.Fatalf("close: %v", err)
				}

				w.pool = newTempPool(rt, w.st, encs, enc, w.cache)
				w.log = append(w.log, "reopen")
			case "clean":
				w.height += base.Height(rapid.IntRange(0, 4).Draw(rt, "heightJump"))

				n, err := w.pool.VerifCleanRemovedNewOperations()
				if err != nil {
					rt.Fatalf("clean: %v", err)
				}

				w.log = append(w.log, fmt.Sprintf("clean=%d", n))
			}
		}

		// final full scan, so every history ends with one complete observation
		if !w.stop {
			w.hashes(64, c22Filter{kind: "all"}, true)
		}

		var classes []string
		for c := range w.classes {
			classes = append(classes, c)
		}

		sort.Strings(classes)

		if w.stop {
			classes = append(classes, "ended-by-known-finding")
		}

		fp := strings.Join(w.log, ";")
		r.Case(fp, w.nontrivial, classes...)

		if w.nontrivial && r.WantSample() {
			r.Sample(map[string]any{"opcache": w.cache, "history": w.log})
		}
	})
}
