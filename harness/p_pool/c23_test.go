package p_pool

import (
	"bytes"
	"context"
	"fmt"
	"sort"
	"strings"
	"testing"
	"time"

	"github.com/spikeekips/mitum/base"
	"github.com/spikeekips/mitum/isaac"
	isaacdatabase "github.com/spikeekips/mitum/isaac/database"
	leveldbstorage "github.com/spikeekips/mitum/storage/leveldb"
	"pgregory.net/rapid"
	"verif/internal/ev"
)

// C23: expel-operation pool lookups match the stored ranges. The model is a map fact -> (node, start, end, latest
// operation); every query height 0..21 is checked after every mutation.

const (
	c23MaxHeight = 20
	c23Nodes     = 4
)

type c23Rec struct {
	node       int
	start, end int64
	signers    int // bit mask over the 4 signer nodes
	op         isaac.SuffrageExpelOperation
}

func (x c23Rec) covers(h int64) bool { return x.start <= h && h <= x.end }

func (x c23Rec) String() string {
	return fmt.Sprintf("n%d[%d,%d]s%x", x.node, x.start, x.end, x.signers)
}

func c23Key(node int, start, end int64) string { return fmt.Sprintf("%d/%02d/%02d", node, start, end) }

func c23Build(t ev.TB, node int, start, end int64, signers int) isaac.SuffrageExpelOperation {
	keys, nodes := poolFixtures(nil)

	fact := isaac.NewSuffrageExpelFact(nodes[node], base.Height(start), base.Height(end), "verif")
	op := isaac.NewSuffrageExpelOperation(fact)

	for s := 0; s < 4; s++ {
		if signers&(1<<s) == 0 {
			continue
		}

		if err := op.NodeSign(keys[4+s], poolNetworkID, nodes[4+s]); err != nil {
			t.Fatalf("sign expel operation: %v", err)
		}
	}

	if err := op.IsValid(poolNetworkID); err != nil {
		t.Fatalf("generated expel operation is not valid: %v", err)
	}

	return op
}

type c23World struct {
	t     ev.TB // *rapid.T, or *testing.T in the regression table
	r     *ev.Rec
	pool  *isaacdatabase.TempPool
	model map[string]c23Rec // by c23Key
	log   []string

	nontrivial bool
	classes    map[string]bool
}

func (w *c23World) sorted() []c23Rec {
	ks := make([]string, 0, len(w.model))
	for k := range w.model {
		ks = append(ks, k)
	}

	sort.Strings(ks)

	out := make([]c23Rec, len(ks))
	for i, k := range ks {
		out[i] = w.model[k]
	}

	return out
}

func (w *c23World) describe() string {
	var s []string
	for _, x := range w.sorted() {
		s = append(s, x.String())
	}

	return "stored{" + strings.Join(s, " ") + "} history: " + strings.Join(w.log, " ; ")
}

// scannedBefore reports whether the pool's descending scan (records are keyed by end height, then fact hash) reaches
// record a before record b. Used only to name the root cause of a miss, never for the verdict.
func c23ScannedBefore(a, b c23Rec) bool {
	if a.end != b.end {
		return a.end > b.end
	}

	return bytes.Compare(a.op.ExpelFact().Hash().Bytes(), b.op.ExpelFact().Hash().Bytes()) > 0
}

func (w *c23World) checkAll(after string) {
	recs := w.sorted()
	byFact := map[string]c23Rec{}

	for _, x := range recs {
		byFact[x.op.ExpelFact().Hash().String()] = x
	}

	for h := int64(0); h <= c23MaxHeight+1; h++ {
		// ---- traversal
		visited := map[string]int{}

		var order []string

		if err := w.pool.TraverseSuffrageExpelOperations(context.Background(), base.Height(h), func(op base.SuffrageExpelOperation) (bool, error) {
			fh := op.ExpelFact().Hash().String()
			visited[fh]++
			x, known := byFact[fh]

			switch {
			case !known:
				w.r.Violation(w.t, "traverse-visits-unstored", "%s: traversal at height %d visits an operation that is not stored (node %s [%d,%d]); %s",
					after, h, op.ExpelFact().Node(), op.ExpelFact().ExpelStart(), op.ExpelFact().ExpelEnd(), w.describe())
			case !x.covers(h):
				w.r.Violation(w.t, "traverse-visits-uncovering", "%s: traversal at height %d visits %s whose range does not cover it; %s", after, h, x, w.describe())
			case !op.Hash().Equal(x.op.Hash()):
				w.r.Violation(w.t, "traverse-stale-operation", "%s: traversal at height %d delivers an older version of %s (hash %s, stored last %s); %s",
					after, h, x, op.Hash(), x.op.Hash(), w.describe())
			case visited[fh] > 1:
				w.r.Violation(w.t, "traverse-visits-twice", "%s: traversal at height %d visits %s twice; %s", after, h, x, w.describe())
			}

			order = append(order, x.String())

			return true, nil
		}); err != nil {
			w.t.Fatalf("traverse: %v", err)
		}

		var above, covering int

		for _, x := range recs {
			if x.start > h {
				above++
			}

			if !x.covers(h) {
				continue
			}

			covering++

			if visited[x.op.ExpelFact().Hash().String()] > 0 {
				continue
			}

			sig := "traverse-missed"

			for _, y := range recs {
				if y.start > h && c23ScannedBefore(y, x) {
					sig = "traverse-stops-at-later-start"

					break
				}
			}

			w.r.Violation(w.t, sig, "%s: traversal at height %d visited %v but not %s, whose range covers the height; %s", after, h, order, x, w.describe())
		}

		if above > 0 && covering > 0 {
			w.nontrivial = true
		}

		// ---- lookups
		_, nodes := poolFixtures(nil)

		for n := 0; n < c23Nodes; n++ {
			op, found, err := w.pool.SuffrageExpelOperation(base.Height(h), nodes[n])
			if err != nil {
				w.t.Fatalf("lookup: %v", err)
			}

			var cover []c23Rec

			for _, x := range recs {
				if x.node == n && x.covers(h) {
					cover = append(cover, x)
				}
			}

			switch {
			case found && op == nil:
				w.r.Violation(w.t, "lookup-found-nil", "%s: lookup (height %d, node%d) reports found with a nil operation; %s", after, h, n, w.describe())
			case found:
				x, known := byFact[op.ExpelFact().Hash().String()]

				switch {
				case !known:
					w.r.Violation(w.t, "lookup-finds-unstored", "%s: lookup (height %d, node%d) returns an operation that is not stored (node %s [%d,%d]); %s",
						after, h, n, op.ExpelFact().Node(), op.ExpelFact().ExpelStart(), op.ExpelFact().ExpelEnd(), w.describe())
				case x.node != n:
					w.r.Violation(w.t, "lookup-wrong-node", "%s: lookup (height %d, node%d) returns %s of another node; %s", after, h, n, x, w.describe())
				case !x.covers(h):
					w.r.Violation(w.t, "lookup-uncovering", "%s: lookup (height %d, node%d) returns %s whose range does not cover the height; %s", after, h, n, x, w.describe())
				case !op.Hash().Equal(x.op.Hash()):
					w.r.Violation(w.t, "lookup-stale-operation", "%s: lookup (height %d, node%d) returns an older version of %s; %s", after, h, n, x, w.describe())
				}
			case len(cover) > 0:
				sig := "lookup-missed"

				for _, y := range recs {
					if y.node == n && y.start > h && c23ScannedBefore(y, cover[0]) {
						sig = "lookup-stops-at-later-start"
					}
				}

				w.r.Violation(w.t, sig, "%s: lookup (height %d, node%d) finds nothing although %v cover(s) the height; %s", after, h, n, cover, w.describe())
			}
		}
	}
}

func TestC23(t *testing.T) {
	r := ev.Start(t, "C23")
	defer r.Finish()
	r.Rule("0..12 valid, signed expel operations over 4 nodes with ranges [start,end] in 1..20 (overlapping, nested, disjoint, several per node, equal ends), " +
		"then 0..5 drawn mutations {set new, re-set a stored fact with more signatures, RemoveSuffrageExpelOperationsByHeight(h), RemoveSuffrageExpelOperationsByFact(stored+unknown facts)}; " +
		"after the initial load and after every mutation, for every height 0..21: TraverseSuffrageExpelOperations (callback continues) must visit exactly the stored operations covering the height " +
		"(latest version, once), and SuffrageExpelOperation(height,node) for each of the 4 nodes must find an operation exactly when the node has one covering the height (and return a covering one of that node). " +
		"non-trivial: at some checked height one stored range starts above the height while another covers it; distinct by (initial set, mutations)")
	r.Floor(100)
	r.Assume("operations given to the pool are IsValid (start > genesis, start <= end) as SuffrageVoting.Vote receives them",
		"heights are non-negative; the traversal callback always continues")

	encs, enc := poolEncoders(t)
	poolFixtures(t)

	// ---- regression table: the shrunk cases of the defect this check found (plain code, no library)
	t.Run("regress", func(t *testing.T) {
		table := []struct {
			name string
			ops  [][3]int64 // node, start, end
		}{
			{"same node [1,1] and [2,2]", [][3]int64{{0, 1, 1}, {0, 2, 2}}},
			{"two nodes [30,45] and [40,50] (design probe, scaled: [10,15] [13,20])", [][3]int64{{1, 10, 15}, {0, 13, 20}}},
			{"nested [5,20] around [8,9]", [][3]int64{{2, 5, 20}, {2, 8, 9}}},
		}

		for i, c := range table {
			if !r.Mine(i) {
				continue
			}

			st := leveldbstorage.NewMemStorage()
			pool := newTempPool(t, st, encs, enc, 0)
			w := &c23World{t: t, r: r, pool: pool, model: map[string]c23Rec{}, classes: map[string]bool{}}

			for _, o := range c.ops {
				x := c23Rec{node: int(o[0]), start: o[1], end: o[2], signers: 1}
				x.op = c23Build(t, x.node, x.start, x.end, x.signers)

				if err := pool.SetSuffrageExpelOperation(x.op); err != nil {
					t.Fatalf("set: %v", err)
				}

				w.model[c23Key(x.node, x.start, x.end)] = x
				w.log = append(w.log, "set "+x.String())
			}

			w.checkAll("regression case '" + c.name + "'")

			_ = pool.Close()
			_ = st.Close()

			r.Case("regress:"+c.name, w.nontrivial, "regression-table")
		}
	})

	if t.Failed() {
		return
	}

	r.Checks(500, 20000)
	r.ShrinkTime(20 * time.Second)

	rapid.Check(t, func(rt *rapid.T) {
		st := leveldbstorage.NewMemStorage()
		defer st.Close()

		pool := newTempPool(rt, st, encs, enc, 0)
		defer pool.Close()

		w := &c23World{t: rt, r: r, pool: pool, model: map[string]c23Rec{}, classes: map[string]bool{}}

		genRange := func(label string) (int, int64, int64, int) {
			node := rapid.IntRange(0, c23Nodes-1).Draw(rt, label+"Node")
			a := int64(rapid.IntRange(1, c23MaxHeight).Draw(rt, label+"A"))

			var b int64

			switch rapid.IntRange(0, 3).Draw(rt, label+"Len") {
			case 0:
				b = a
			case 1:
				b = a + int64(rapid.IntRange(0, 3).Draw(rt, label+"Short"))
			default:
				b = int64(rapid.IntRange(1, c23MaxHeight).Draw(rt, label+"B"))
			}

			if b > c23MaxHeight {
				b = c23MaxHeight
			}

			if a > b {
				a, b = b, a
			}

			return node, a, b, rapid.IntRange(1, 15).Draw(rt, label+"Signers")
		}

		set := func(node int, start, end int64, signers int, how string) {
			x := c23Rec{node: node, start: start, end: end, signers: signers}
			x.op = c23Build(rt, node, start, end, signers)

			if err := pool.SetSuffrageExpelOperation(x.op); err != nil {
				rt.Fatalf("set: %v", err)
			}

			w.model[c23Key(node, start, end)] = x
			w.log = append(w.log, how+" "+x.String())
		}

		n := rapid.IntRange(0, 12).Draw(rt, "n")
		for i := 0; i < n; i++ {
			node, a, b, s := genRange("op")
			set(node, a, b, s, "set")
		}

		initial := len(w.model)
		w.checkAll("after the initial load")

		steps := rapid.IntRange(0, 5).Draw(rt, "steps")
		for i := 0; i < steps; i++ {
			kind := rapid.SampledFrom([]string{"set", "set", "resign", "removeByHeight", "removeByHeight", "removeByFact"}).Draw(rt, "step")

			if kind == "resign" && len(w.model) == 0 {
				kind = "set"
			}

			w.classes["step:"+kind] = true

			switch kind {
			case "set":
				node, a, b, s := genRange("new")
				set(node, a, b, s, "set")
			case "resign":
				x := rapid.SampledFrom(w.sorted()).Draw(rt, "resignWhich")
				more := x.signers | rapid.IntRange(1, 15).Draw(rt, "moreSigners")
				set(x.node, x.start, x.end, more, "re-set")
			case "removeByHeight":
				h := int64(rapid.IntRange(0, c23MaxHeight+1).Draw(rt, "removeHeight"))
				if err := pool.RemoveSuffrageExpelOperationsByHeight(base.Height(h)); err != nil {
					rt.Fatalf("remove by height: %v", err)
				}

				for k, x := range w.model {
					if x.end <= h {
						delete(w.model, k)
					}
				}

				w.log = append(w.log, fmt.Sprintf("removeByHeight(%d)", h))
			case "removeByFact":
				var facts []base.SuffrageExpelFact

				var desc []string

				for _, x := range w.sorted() {
					if rapid.IntRange(0, 2).Draw(rt, "removeThis") == 0 {
						facts = append(facts, x.op.ExpelFact())
						desc = append(desc, x.String())

						delete(w.model, c23Key(x.node, x.start, x.end))
					}
				}

				for j := rapid.IntRange(0, 2).Draw(rt, "unknownFacts"); j > 0; j-- {
					node, a, b, _ := genRange("unknown")
					if _, stored := w.model[c23Key(node, a, b)]; stored {
						continue
					}

					_, nodes := poolFixtures(nil)
					facts = append(facts, isaac.NewSuffrageExpelFact(nodes[node], base.Height(a), base.Height(b), "verif"))
					desc = append(desc, fmt.Sprintf("unknown n%d[%d,%d]", node, a, b))
				}

				if err := pool.RemoveSuffrageExpelOperationsByFact(facts); err != nil {
					rt.Fatalf("remove by fact: %v", err)
				}

				w.log = append(w.log, "removeByFact("+strings.Join(desc, ",")+")")
			}

			w.checkAll("after " + w.log[len(w.log)-1])
		}

		// classes
		perNode := map[int]int{}
		nested := false
		recs := w.sorted()

		for i, x := range recs {
			perNode[x.node]++

			for j, y := range recs {
				if i != j && x.start <= y.start && y.end <= x.end {
					nested = true
				}
			}
		}

		classes := []string{fmt.Sprintf("initial-ops:%d", initial/4*4)}
		for _, c := range perNode {
			if c > 1 {
				classes = append(classes, "several-per-node")

				break
			}
		}

		if nested {
			classes = append(classes, "nested-ranges")
		}

		for c := range w.classes {
			classes = append(classes, c)
		}

		sort.Strings(classes)

		if w.nontrivial {
			classes = append(classes, "later-start-and-covering")
		}

		r.Case(strings.Join(w.log, ";"), w.nontrivial, classes...)

		if w.nontrivial && r.WantSample() {
			r.Sample(map[string]any{"history": w.log})
		}
	})
}
