package p_pool

import (
	"errors"
	"fmt"
	"sort"
	"strings"
	"sync"
	"sync/atomic"
	"testing"
	"time"

	"github.com/spikeekips/mitum/base"
	"github.com/spikeekips/mitum/isaac"
	isaacdatabase "github.com/spikeekips/mitum/isaac/database"
	leveldbstorage "github.com/spikeekips/mitum/storage/leveldb"
	"github.com/spikeekips/mitum/util"
	"github.com/spikeekips/mitum/util/encoder"
	"github.com/spikeekips/mitum/util/valuehash"
	leveldbStorage "github.com/syndtr/goleveldb/leveldb/storage"
	"pgregory.net/rapid"
	"verif/internal/ev"
)

// C24: ballot and proposal pools are first-writer-wins and consistent; cleanup removes only entries at least the
// configured depth (3) below the newest height.

const c24Depth = 3 // cleanRemovedBallotDeep / cleanRemovedProposalDeep as configured by NewTempPool

func c24Hash(s string) util.Hash { return valuehash.NewSHA256([]byte(s)) }

type c24BallotKey struct {
	h     int64
	r     uint64
	stage base.Stage
	sc    bool
}

func (k c24BallotKey) String() string {
	s := fmt.Sprintf("%d/%d/%s", k.h, k.r, k.stage)
	if k.sc {
		s += "+sc"
	}

	return s
}

func (k c24BallotKey) point() base.Point { return base.RawPoint(k.h, k.r) }

// c24MakeBallot builds a signed ballot for key k. factVariant selects the voted content (so two ballots of one key can
// differ in fact), nexpels adds expel operations (bigger encoding). Every call signs afresh (new signature time).
func c24MakeBallot(t ev.TB, k c24BallotKey, factVariant, nexpels int) base.Ballot {
	keys, nodes := poolFixtures(nil)

	var expels []base.SuffrageExpelOperation

	var expelfacts []util.Hash

	for i := 0; i < nexpels; i++ {
		op := c23Build(t, 1+i, k.h+1, k.h+2, 1|2)
		expels = append(expels, op)
		expelfacts = append(expelfacts, op.ExpelFact().Hash())
	}

	prev := c24Hash(fmt.Sprintf("prev-%d", k.h))
	proposal := c24Hash(fmt.Sprintf("proposal-%d-%d-%d", k.h, k.r, factVariant))

	switch {
	case k.stage == base.StageACCEPT:
		fact := isaac.NewACCEPTBallotFact(k.point(), proposal, c24Hash(fmt.Sprintf("newblock-%d-%d-%d", k.h, k.r, factVariant)), expelfacts)
		sf := isaac.NewACCEPTBallotSignFact(fact)

		if err := sf.NodeSign(keys[0], poolNetworkID, nodes[0]); err != nil {
			t.Fatalf("sign: %v", err)
		}

		return isaac.NewACCEPTBallot(nil, sf, expels)
	case k.sc:
		if len(expelfacts) == 0 {
			expelfacts = []util.Hash{c24Hash(fmt.Sprintf("expelfact-%d", factVariant))}
		}

		fact := isaac.NewSuffrageConfirmBallotFact(k.point(), prev, proposal, expelfacts)
		sf := isaac.NewINITBallotSignFact(fact)

		if err := sf.NodeSign(keys[0], poolNetworkID, nodes[0]); err != nil {
			t.Fatalf("sign: %v", err)
		}

		return isaac.NewINITBallot(nil, sf, nil)
	default:
		fact := isaac.NewINITBallotFact(k.point(), prev, proposal, expelfacts)
		sf := isaac.NewINITBallotSignFact(fact)

		if err := sf.NodeSign(keys[0], poolNetworkID, nodes[0]); err != nil {
			t.Fatalf("sign: %v", err)
		}

		return isaac.NewINITBallot(nil, sf, expels)
	}
}

func c24Render(t ev.TB, enc encoder.Encoder, v any) string {
	b, err := enc.Marshal(v)
	if err != nil {
		t.Fatalf("marshal: %v", err)
	}

	return string(b)
}

type c24Triple struct {
	h        int64
	r        uint64
	proposer int
	prev     int
}

func (x c24Triple) String() string { return fmt.Sprintf("%d/%d/p%d/b%d", x.h, x.r, x.proposer, x.prev) }

func c24MakeProposalFact(x c24Triple, nops int, salt string) isaac.ProposalFact {
	_, nodes := poolFixtures(nil)

	ops := make([][2]util.Hash, nops)
	for i := range ops {
		ops[i] = [2]util.Hash{c24Hash(fmt.Sprintf("op-%s-%d", salt, i)), c24Hash(fmt.Sprintf("fact-%s-%d", salt, i))}
	}

	return isaac.NewProposalFact(base.RawPoint(x.h, x.r), nodes[x.proposer], c24Hash(fmt.Sprintf("prevblock-%d", x.prev)), ops)
}

func c24SignProposal(t ev.TB, fact isaac.ProposalFact, proposer int) base.ProposalSignFact {
	keys, _ := poolFixtures(nil)
	sf := isaac.NewProposalSignFact(fact)

	if err := sf.Sign(keys[proposer], poolNetworkID); err != nil {
		t.Fatalf("sign proposal: %v", err)
	}

	return sf
}

type c24Ballot struct {
	key    c24BallotKey
	first  string // rendering of the first ballot stored
	offers int
}

type c24Proposal struct {
	triple c24Triple
	fact   isaac.ProposalFact
	first  string
	offers int
}

type c24World struct {
	t    ev.TB // *rapid.T, or *testing.T in the race trials
	r    *ev.Rec
	enc  encoder.Encoder
	encs *encoder.Encoders
	str  leveldbStorage.Storage // goleveldb's in-memory files; survives Close of st, so that the storage can be opened again
	st   *leveldbstorage.Storage
	pool *isaacdatabase.TempPool

	fault *c24Fault // storage write faults (hook H3) of this world's storage

	ballots   map[c24BallotKey]*c24Ballot
	proposals map[string]*c24Proposal // by fact hash
	byTriple  map[c24Triple][]string  // fact hashes ever stored under the triple
	cleaned   map[c24Triple]bool      // a proposal cleanup ran while the position held proposals
	multi     map[c24Triple]bool      // the position held proposals of two different facts at the same time (equivocating proposer)

	log        []string
	nontrivial bool
	classes    map[string]bool
}

func (w *c24World) history() string { return strings.Join(w.log, " ; ") }

func (w *c24World) classList() []string {
	classes := make([]string, 0, len(w.classes))
	for c := range w.classes {
		classes = append(classes, c)
	}

	sort.Strings(classes)

	return classes
}

func (w *c24World) checkBallot(k c24BallotKey, why string) {
	bl, found, err := w.pool.Ballot(k.point(), k.stage, k.sc)
	if err != nil {
		w.t.Fatalf("Ballot: %v", err)
	}

	m := w.ballots[k]

	switch {
	case m == nil && found:
		w.r.Violation(w.t, "ballot-found-never-stored", "%s: Ballot(%s) finds a ballot, none was stored for that key; history: %s", why, k, w.history())
	case m != nil && !found:
		w.r.Violation(w.t, "ballot-lost", "%s: Ballot(%s) finds nothing, a ballot is stored for that key; history: %s", why, k, w.history())
	case m != nil:
		if got := c24Render(w.t, w.enc, bl); got != m.first {
			w.r.Violation(w.t, "ballot-not-first-writer", "%s: Ballot(%s) returns a ballot different from the first one stored:\n got  %.300s\n want %.300s\nhistory: %s", why, k, got, m.first, w.history())
		}
	}
}

func (w *c24World) checkProposal(fh string, why string) {
	m := w.proposals[fh]

	pr, found, err := w.pool.Proposal(m.fact.Hash())
	if err != nil {
		w.t.Fatalf("Proposal: %v", err)
	}

	switch {
	case !found:
		w.r.Violation(w.t, "proposal-lost", "%s: Proposal(fact of %s) finds nothing, a proposal is stored for it; history: %s", why, m.triple, w.history())
	default:
		if got := c24Render(w.t, w.enc, pr); got != m.first {
			w.r.Violation(w.t, "proposal-not-first-writer", "%s: Proposal(fact of %s) returns a proposal different from the first one stored:\n got  %.300s\n want %.300s\nhistory: %s", why, m.triple, got, m.first, w.history())
		}
	}
}

func (w *c24World) checkByPoint(x c24Triple, why string) {
	_, nodes := poolFixtures(nil)

	pr, found, err := w.pool.ProposalByPoint(base.RawPoint(x.h, x.r), nodes[x.proposer], c24Hash(fmt.Sprintf("prevblock-%d", x.prev)))
	if err != nil {
		w.t.Fatalf("ProposalByPoint: %v", err)
	}

	var live []string // facts of this triple still in the model

	for _, fh := range w.byTriple[x] {
		if _, ok := w.proposals[fh]; ok {
			live = append(live, fh)
		}
	}

	equivocated := w.multi[x]

	switch {
	case !found && len(live) == 1 && !equivocated:
		w.r.Violation(w.t, "bypoint-lost", "%s: ProposalByPoint(%s) finds nothing, the proposal stored for that position is still found by its fact; history: %s", why, x, w.history())
	case !found && len(live) > 0 && equivocated && !w.cleaned[x]:
		w.r.Violation(w.t, "bypoint-lost", "%s: ProposalByPoint(%s) finds nothing, %d proposals were stored for that position; history: %s", why, x, len(live), w.history())
	case found:
		got := c24Render(w.t, w.enc, pr)
		fh := pr.Fact().Hash().String()

		m, ok := w.proposals[fh]

		switch {
		case !ok && len(w.byTriple[x]) == 0:
			w.r.Violation(w.t, "bypoint-found-never-stored", "%s: ProposalByPoint(%s) finds a proposal, none was stored for that position; history: %s", why, x, w.history())
		case !ok:
			w.r.Violation(w.t, "bypoint-dangling", "%s: ProposalByPoint(%s) returns a proposal that is no longer (or was never) stored under its fact; history: %s", why, x, w.history())
		case m.triple != x:
			w.r.Violation(w.t, "bypoint-wrong-position", "%s: ProposalByPoint(%s) returns the proposal of position %s; history: %s", why, x, m.triple, w.history())
		case got != m.first:
			w.r.Violation(w.t, "bypoint-not-first-writer", "%s: ProposalByPoint(%s) returns a proposal different from the first one stored for its fact:\n got  %.300s\n want %.300s\nhistory: %s", why, x, got, m.first, w.history())
		}
	}
}

func (w *c24World) checkAll(why string) {
	ks := make([]c24BallotKey, 0, len(w.ballots))
	for k := range w.ballots {
		ks = append(ks, k)
	}

	sort.Slice(ks, func(i, j int) bool { return ks[i].String() < ks[j].String() })

	for _, k := range ks {
		w.checkBallot(k, why)
	}

	fhs := make([]string, 0, len(w.proposals))
	for fh := range w.proposals {
		fhs = append(fhs, fh)
	}

	sort.Strings(fhs)

	for _, fh := range fhs {
		w.checkProposal(fh, why)
	}

	var xs []c24Triple
	for x := range w.byTriple {
		xs = append(xs, x)
	}

	sort.Slice(xs, func(i, j int) bool { return xs[i].String() < xs[j].String() })

	for _, x := range xs {
		w.checkByPoint(x, why)
	}
}

func (w *c24World) setBallot(k c24BallotKey, variant, nexpels int) {
	bl := c24MakeBallot(w.t, k, variant, nexpels)
	w.log = append(w.log, fmt.Sprintf("SetBallot(%s,fact%d,expels%d)", k, variant, nexpels))

	w.offerBallot(bl, k)
}

// offerBallot calls SetBallot on a healthy storage and judges the answer and the lookup against the model; the
// description of the step is already the last entry of the log.
func (w *c24World) offerBallot(bl base.Ballot, k c24BallotKey) {
	added, err := w.pool.SetBallot(bl)
	if err != nil {
		w.t.Fatalf("SetBallot: %v", err)
	}

	w.judgeSetBallot(bl, k, added)
}

func (w *c24World) judgeSetBallot(bl base.Ballot, k c24BallotKey, added bool) {
	m := w.ballots[k]

	switch {
	case m == nil && !added:
		w.r.Violation(w.t, "ballot-first-refused", "SetBallot(%s) returned false although no ballot is stored for that key; history: %s", k, w.history())
	case m != nil && added:
		w.r.Violation(w.t, "ballot-second-accepted", "SetBallot(%s) returned true although a ballot is already stored for that key; history: %s", k, w.history())
	}

	if m == nil {
		m = &c24Ballot{key: k, first: c24Render(w.t, w.enc, bl)}
		w.ballots[k] = m
	} else if c24Render(w.t, w.enc, bl) != m.first {
		w.nontrivial = true
	}

	m.offers++

	w.checkBallot(k, "after "+w.log[len(w.log)-1])
}

func (w *c24World) setProposal(fact isaac.ProposalFact, x c24Triple, how string) {
	pr := c24SignProposal(w.t, fact, x.proposer)
	w.log = append(w.log, fmt.Sprintf("SetProposal(%s,%s,%d ops)", x, how, len(fact.Operations())))

	w.offerProposal(pr, fact, x)
}

// offerProposal calls SetProposal on a healthy storage and judges the answer and both lookups against the model; the
// description of the step is already the last entry of the log.
func (w *c24World) offerProposal(pr base.ProposalSignFact, fact isaac.ProposalFact, x c24Triple) {
	added, err := w.pool.SetProposal(pr)
	if err != nil {
		w.t.Fatalf("SetProposal: %v", err)
	}

	w.judgeSetProposal(pr, fact, x, added)
}

// registerProposal enters the first proposal of a fact into the model.
func (w *c24World) registerProposal(fact isaac.ProposalFact, x c24Triple, rendering string) *c24Proposal {
	fh := fact.Hash().String()

	m := &c24Proposal{triple: x, fact: fact, first: rendering}
	w.proposals[fh] = m

	if w.otherLiveFacts(x, fh) == 0 {
		delete(w.cleaned, x)
		delete(w.multi, x)
	} else {
		w.multi[x] = true
		w.classes["position-with-2+-facts"] = true
	}

	w.byTriple[x] = append(w.byTriple[x], fh)

	return m
}

// otherLiveFacts counts the facts other than fh that the model holds for position x.
func (w *c24World) otherLiveFacts(x c24Triple, fh string) int {
	live := 0

	for _, other := range w.byTriple[x] {
		if _, ok := w.proposals[other]; ok && other != fh {
			live++
		}
	}

	return live
}

func (w *c24World) judgeSetProposal(pr base.ProposalSignFact, fact isaac.ProposalFact, x c24Triple, added bool) {
	fh := fact.Hash().String()
	m := w.proposals[fh]

	switch {
	case m == nil && !added:
		w.r.Violation(w.t, "proposal-first-refused", "SetProposal(%s) returned false although no proposal is stored for that fact; history: %s", x, w.history())
	case m != nil && added:
		w.r.Violation(w.t, "proposal-second-accepted", "SetProposal(%s) returned true although a proposal is already stored for that fact; history: %s", x, w.history())
	}

	if m == nil {
		m = w.registerProposal(fact, x, c24Render(w.t, w.enc, pr))
	} else if c24Render(w.t, w.enc, pr) != m.first {
		w.nontrivial = true // a second, differently signed proposal for a stored fact
	}

	m.offers++

	w.checkProposal(fh, "after "+w.log[len(w.log)-1])
	w.checkByPoint(x, "after "+w.log[len(w.log)-1])
}

// ---- storage write faults (hook H3)

// c24Fault refuses writes of one storage: once armed, the k-th write (Put, Delete or Batch, counted from arming) is
// refused, i.e. it returns an error and nothing of it reaches the storage, as if the storage broke or the process died
// at that write; with sticky every later write is refused as well until disarm.
type c24Fault struct {
	mu     sync.Mutex
	armed  bool
	k      int
	sticky bool
	seen   int
	fired  int
	kinds  []string
}

var errC24Injected = errors.New("verif: injected storage write failure")

var c24Faults sync.Map // *leveldbstorage.Storage -> *c24Fault

// c24FaultController is installed as the process-wide H3 controller while TestC24 runs; storages of other tests are
// not registered and pass untouched.
func c24FaultController(st *leveldbstorage.Storage, kind string, n int) error {
	i, ok := c24Faults.Load(st)
	if !ok {
		return nil
	}

	return i.(*c24Fault).write(kind, n) //nolint:forcetypeassert //...
}

func (f *c24Fault) write(kind string, n int) error {
	f.mu.Lock()
	defer f.mu.Unlock()

	if !f.armed {
		return nil
	}

	f.seen++
	f.kinds = append(f.kinds, fmt.Sprintf("%s/%d", kind, n))

	if f.seen == f.k || (f.sticky && f.seen > f.k) {
		f.fired++

		return errC24Injected
	}

	return nil
}

func (f *c24Fault) arm(k int, sticky bool) {
	f.mu.Lock()
	defer f.mu.Unlock()

	f.armed, f.k, f.sticky, f.seen, f.fired, f.kinds = true, k, sticky, 0, 0, nil
}

// disarm returns how many writes were refused and how many writes the call issued while armed.
func (f *c24Fault) disarm() (fired, seen int) {
	f.mu.Lock()
	defer f.mu.Unlock()

	f.armed = false

	return f.fired, f.seen
}

// c24FaultPlan: which write of the call is refused and what the caller does afterwards.
type c24FaultPlan struct {
	k      int    // 1..3: the k-th write of the call is refused (a call that issues fewer writes runs unharmed)
	sticky bool   // the storage keeps refusing until the call returned
	follow string // "", "retry", "reopen", "restart", and the two-step combinations
}

var c24Follows = []string{"", "retry", "reopen", "restart", "retry+reopen", "retry+restart", "reopen+retry", "restart+retry"}

func (p c24FaultPlan) String() string {
	s := fmt.Sprintf("write #%d", p.k)
	if p.sticky {
		s += "+ (all later ones too)"
	}

	return s
}

// reopen closes the pool and opens a new one on the same storage; with restart the leveldb storage itself is closed
// and opened again from its (in-memory) files, as a restarted process does.
func (w *c24World) reopen(restart bool) {
	if err := w.pool.Close(); err != nil {
		w.t.Fatalf("close: %v", err)
	}

	what := "reopen"

	if restart {
		what = "restart"

		c24Faults.Delete(w.st)

		if err := w.st.Close(); err != nil {
			w.t.Fatalf("close storage: %v", err)
		}

		st, err := leveldbstorage.NewStorage(w.str, nil)
		if err != nil {
			w.t.Fatalf("open storage again: %v", err)
		}

		w.st = st
		c24Faults.Store(w.st, w.fault)
	}

	w.pool = newTempPool(w.t, w.st, w.encs, w.enc, 0)
	w.log = append(w.log, what)
	w.classes["step:"+what] = true
	w.checkAll("after " + what)
}

func (w *c24World) follow(follow string, retry func()) {
	if follow == "" {
		return
	}

	for _, f := range strings.Split(follow, "+") {
		switch f {
		case "retry":
			retry()
		case "reopen":
			w.reopen(false)
		case "restart":
			w.reopen(true)
		}
	}
}

// faultSetProposal: SetProposal while the storage refuses the plan's write, then the plan's follow-up. The statement's
// consistency clause has no exception for a call that failed: whatever the pool keeps for the fact afterwards, the
// by-point lookup returns the same. So the failed call leaves nothing (both lookups find nothing new) or everything
// (both find the offered proposal), and the same holds after the same SetProposal is called again on the healthy
// storage (which must then store it, or find it stored) and after the pool / the storage was opened again.
func (w *c24World) faultSetProposal(fact isaac.ProposalFact, x c24Triple, how string, plan c24FaultPlan) {
	pr := c24SignProposal(w.t, fact, x.proposer)
	fh := fact.Hash().String()
	offered := c24Render(w.t, w.enc, pr)

	w.log = append(w.log, fmt.Sprintf("SetProposal(%s,%s,%d ops) while the storage refuses %s", x, how, len(fact.Operations()), plan))

	w.fault.arm(plan.k, plan.sticky)
	added, err := w.pool.SetProposal(pr)
	fired, seen := w.fault.disarm()

	w.log[len(w.log)-1] += fmt.Sprintf(" -> stored=%v, error=%v, %d of %d writes refused", added, err != nil, fired, seen)
	why := "after " + w.log[len(w.log)-1]

	if fired > 0 {
		w.nontrivial = true
		w.classes[fmt.Sprintf("fault:setproposal:write#%d-refused", plan.k)] = true
	} else {
		w.classes["fault:setproposal:no-write-refused"] = true
	}

	switch {
	case err == nil:
		// nothing was refused (stored fact: the call returns before it writes; k beyond the writes of the call), or the
		// call claims success although a write was refused: either way it is judged like every other successful call
		w.judgeSetProposal(pr, fact, x, added)
	case fired < 1:
		w.t.Fatalf("SetProposal: %v", err)
	default:
		if added {
			w.r.Violation(w.t, "setproposal-error-and-stored", "SetProposal(%s) returned an error and 'stored' at the same time; history: %s", x, w.history())
		}

		if w.proposals[fh] == nil {
			got, found, gerr := w.pool.Proposal(fact.Hash())
			if gerr != nil {
				w.t.Fatalf("Proposal: %v", gerr)
			}

			switch {
			case !found:
				w.classes["fault:failed-setproposal-left-nothing"] = true
			case c24Render(w.t, w.enc, got) != offered:
				w.r.Violation(w.t, "proposal-found-never-stored", "%s: Proposal(fact of %s) returns a proposal that is not the offered one, and none was stored for the fact before; history: %s", why, x, w.history())
			default:
				// the pool keeps the offered proposal for the fact: it is the first one of the fact from now on
				w.classes["fault:failed-setproposal-left-the-proposal"] = true

				w.registerProposal(fact, x, offered)

				_, nodes := poolFixtures(nil)

				_, bfound, berr := w.pool.ProposalByPoint(base.RawPoint(x.h, x.r), nodes[x.proposer], c24Hash(fmt.Sprintf("prevblock-%d", x.prev)))
				if berr != nil {
					w.t.Fatalf("ProposalByPoint: %v", berr)
				}

				// which proposal a found by-point entry must be (this one, or under an equivocated position any stored
				// one) is judged by checkByPoint below
				if !bfound {
					w.r.Violation(w.t, "setproposal-partial-write", "%s: the failed SetProposal left the proposal under its fact (Proposal finds it) without its by-point entry (ProposalByPoint(%s) finds nothing); history: %s",
						why, x, w.history())
				}
			}
		}

		if w.proposals[fh] != nil {
			w.checkProposal(fh, why)
		}

		w.checkByPoint(x, why)
	}

	w.follow(plan.follow, func() {
		w.log = append(w.log, fmt.Sprintf("SetProposal(%s,the same proposal again,%d ops)", x, len(fact.Operations())))
		w.offerProposal(pr, fact, x)
	})
}

// faultSetBallot: the same for SetBallot. A failed call leaves nothing or the offered ballot; the same SetBallot on the
// healthy storage afterwards stores it or finds it stored.
func (w *c24World) faultSetBallot(k c24BallotKey, variant, nexpels int, plan c24FaultPlan) {
	bl := c24MakeBallot(w.t, k, variant, nexpels)
	offered := c24Render(w.t, w.enc, bl)

	w.log = append(w.log, fmt.Sprintf("SetBallot(%s,fact%d,expels%d) while the storage refuses %s", k, variant, nexpels, plan))

	w.fault.arm(plan.k, plan.sticky)
	added, err := w.pool.SetBallot(bl)
	fired, seen := w.fault.disarm()

	w.log[len(w.log)-1] += fmt.Sprintf(" -> stored=%v, error=%v, %d of %d writes refused", added, err != nil, fired, seen)
	why := "after " + w.log[len(w.log)-1]

	if fired > 0 {
		w.nontrivial = true
		w.classes[fmt.Sprintf("fault:setballot:write#%d-refused", plan.k)] = true
	} else {
		w.classes["fault:setballot:no-write-refused"] = true
	}

	switch {
	case err == nil:
		w.judgeSetBallot(bl, k, added)
	case fired < 1:
		w.t.Fatalf("SetBallot: %v", err)
	default:
		if added {
			w.r.Violation(w.t, "setballot-error-and-stored", "SetBallot(%s) returned an error and 'stored' at the same time; history: %s", k, w.history())
		}

		if w.ballots[k] == nil {
			got, found, gerr := w.pool.Ballot(k.point(), k.stage, k.sc)
			if gerr != nil {
				w.t.Fatalf("Ballot: %v", gerr)
			}

			switch {
			case !found:
				w.classes["fault:failed-setballot-left-nothing"] = true
			case c24Render(w.t, w.enc, got) != offered:
				w.r.Violation(w.t, "ballot-found-never-stored", "%s: Ballot(%s) returns a ballot that is not the offered one, and none was stored for the key before; history: %s", why, k, w.history())
			default:
				w.classes["fault:failed-setballot-left-the-ballot"] = true
				w.ballots[k] = &c24Ballot{key: k, first: offered}
			}
		}

		w.checkBallot(k, why)
	}

	w.follow(plan.follow, func() {
		w.log = append(w.log, fmt.Sprintf("SetBallot(%s,the same ballot again)", k))
		w.offerBallot(bl, k)
	})
}

// cleanupClass records which side of the depth boundary a cleanup ran on (top = newest height in the model, -1 = empty).
func (w *c24World) cleanupClass(kind string, top int64) {
	switch {
	case top < 0:
		w.classes["cleanup:"+kind+":empty"] = true
	case top < c24Depth:
		w.classes["cleanup:"+kind+":newest-below-depth"] = true // nothing may be removed
	case top < 2*c24Depth:
		w.classes[fmt.Sprintf("cleanup:%s:newest=%d", kind, top)] = true // the first removable heights
	default:
		w.classes["cleanup:"+kind+":newest-far-above-depth"] = true
	}
}

// cleanup runs one of the two cleanup steps and judges what vanished.
func (w *c24World) cleanup(kind string) {
	switch kind {
	case "ballots":
		top := int64(-1)
		for k := range w.ballots {
			if k.h > top {
				top = k.h
			}
		}

		n, err := w.pool.VerifCleanBallots()
		if err != nil {
			w.t.Fatalf("clean ballots: %v", err)
		}

		w.log = append(w.log, fmt.Sprintf("cleanBallots=%d(top %d)", n, top))

		w.cleanupClass("ballots", top)

		for k := range w.ballots {
			_, found, err := w.pool.Ballot(k.point(), k.stage, k.sc)
			if err != nil {
				w.t.Fatalf("Ballot: %v", err)
			}

			switch {
			case found && k.h <= top-c24Depth && top-c24Depth >= 0:
				w.classes["cleanup-kept-old-entry"] = true
			case !found && k.h > top-c24Depth:
				w.r.Violation(w.t, "cleanup-removes-recent-ballot", "ballot cleanup removed the ballot %s, which is less than %d below the newest ballot height %d; history: %s",
					k, c24Depth, top, w.history())
			}

			if !found {
				delete(w.ballots, k)
				w.classes["cleanup-removed-ballot"] = true
			}
		}
	case "proposals":
		top := int64(-1)
		for _, m := range w.proposals {
			if m.triple.h > top {
				top = m.triple.h
			}
		}

		n, err := w.pool.VerifCleanProposals()
		if err != nil {
			w.t.Fatalf("clean proposals: %v", err)
		}

		w.log = append(w.log, fmt.Sprintf("cleanProposals=%d(top %d)", n, top))

		w.cleanupClass("proposals", top)

		for x := range w.byTriple {
			w.cleaned[x] = true
		}

		for fh, m := range w.proposals {
			_, found, err := w.pool.Proposal(m.fact.Hash())
			if err != nil {
				w.t.Fatalf("Proposal: %v", err)
			}

			switch {
			case found && m.triple.h <= top-c24Depth && top-c24Depth >= 0:
				w.classes["cleanup-kept-old-entry"] = true
			case !found && m.triple.h > top-c24Depth:
				w.r.Violation(w.t, "cleanup-removes-recent-proposal", "proposal cleanup removed the proposal of %s, which is less than %d below the newest proposal height %d; history: %s",
					m.triple, c24Depth, top, w.history())
			}

			if !found {
				delete(w.proposals, fh)
				w.classes["cleanup-removed-proposal"] = true
			}
		}
	}

	w.checkAll("after " + w.log[len(w.log)-1])
}

// c24Round: the genesis height has one valid point only, (0,0) (base.Point.IsValid); every other height has rounds 0..2.
func c24Round(h int64, r int) uint64 {
	if h == int64(base.GenesisHeight) {
		return 0
	}

	return uint64(r)
}

func c24DrawKey(t *rapid.T, base0 int64, span int) c24BallotKey {
	k := c24BallotKey{h: base0 + int64(rapid.IntRange(0, span-1).Draw(t, "height"))}
	k.r = c24Round(k.h, rapid.IntRange(0, 2).Draw(t, "round"))

	switch rapid.IntRange(0, 2).Draw(t, "stage") {
	case 0:
		k.stage = base.StageINIT
	case 1:
		k.stage = base.StageACCEPT
	default:
		k.stage = base.StageINIT
		k.sc = true
	}

	return k
}

func c24DrawTriple(t *rapid.T, base0 int64, span int) c24Triple {
	x := c24Triple{h: base0 + int64(rapid.IntRange(0, span-1).Draw(t, "height"))}
	x.r = c24Round(x.h, rapid.IntRange(0, 2).Draw(t, "round"))
	x.proposer = rapid.IntRange(0, 2).Draw(t, "proposer")
	x.prev = rapid.IntRange(0, 1).Draw(t, "prevBlock")

	return x
}

func c24DrawFaultPlan(t *rapid.T) c24FaultPlan {
	return c24FaultPlan{
		k:      rapid.IntRange(1, 3).Draw(t, "refusedWrite"),
		sticky: rapid.Bool().Draw(t, "sticky"),
		follow: rapid.SampledFrom(c24Follows).Draw(t, "follow"),
	}
}

// sortedProposals: the fact hashes of the model in a history-determined order (position, then first rendering).
func (w *c24World) sortedProposals() []string {
	fhs := make([]string, 0, len(w.proposals))
	for fh := range w.proposals {
		fhs = append(fhs, fh)
	}

	sort.Slice(fhs, func(i, j int) bool {
		a, b := w.proposals[fhs[i]], w.proposals[fhs[j]]
		if a.triple != b.triple {
			return a.triple.String() < b.triple.String()
		}

		return a.first < b.first
	})

	return fhs
}

func (w *c24World) sequential(t *rapid.T, steps int) {
	// The height window is [base0, base0+span). Low windows (base0 0 with span 1..5, i.e. newest height 0..4) are the
	// pools of a chain right after its genesis: as long as the newest stored height is below the cleanup depth no
	// entry is "at least depth below the newest height", so a cleanup may remove nothing; newest height 3 and 4 are
	// the first ones where heights 0 / 0..1 become removable. The genesis point (0,0) is a valid point and neither
	// SetBallot nor SetProposal excludes it.
	base0 := rapid.SampledFrom([]int64{0, 0, 1, 2, 33}).Draw(t, "baseHeight")
	span := rapid.SampledFrom([]int{1, 2, 3, 4, 5, 10, 10}).Draw(t, "heightSpan")
	w.classes[fmt.Sprintf("window:base%d", base0)] = true
	salt := 0

	for i := 0; i < steps; i++ {
		kind := rapid.SampledFrom([]string{
			"nop", "setBallot", "setBallot", "setBallot", "resetBallot", "resetBallot", "getBallot",
			"setProposal", "setProposal", "resignProposal", "resignProposal", "equivocateProposal", "getProposal", "getByPoint",
			"cleanBallots", "cleanProposals", "reopen", "restart",
			"faultSetProposal", "faultSetProposal", "faultSetBallot",
		}).Draw(t, "step")

		if kind == "nop" {
			continue
		}

		w.classes["step:"+kind] = true

		switch kind {
		case "setBallot":
			w.setBallot(c24DrawKey(t, base0, span), rapid.IntRange(0, 1).Draw(t, "factVariant"), rapid.IntRange(0, 2).Draw(t, "expels"))
		case "resetBallot": // a second ballot for a stored key: same fact signed again, or another fact
			if len(w.ballots) == 0 {
				continue
			}

			ks := make([]c24BallotKey, 0, len(w.ballots))
			for k := range w.ballots {
				ks = append(ks, k)
			}

			sort.Slice(ks, func(i, j int) bool { return ks[i].String() < ks[j].String() })
			w.setBallot(rapid.SampledFrom(ks).Draw(t, "which"), rapid.IntRange(0, 1).Draw(t, "factVariant"), rapid.IntRange(0, 2).Draw(t, "expels"))
		case "getBallot":
			w.checkBallot(c24DrawKey(t, base0, span), "lookup")
		case "setProposal":
			x := c24DrawTriple(t, base0, span)
			salt++
			w.setProposal(c24MakeProposalFact(x, rapid.IntRange(0, 4).Draw(t, "nops"), fmt.Sprintf("s%d", salt)), x, "new fact")
		case "resignProposal", "equivocateProposal":
			if len(w.proposals) == 0 {
				continue
			}

			fhs := w.sortedProposals()

			m := w.proposals[rapid.SampledFrom(fhs).Draw(t, "which")]

			if kind == "resignProposal" {
				w.setProposal(m.fact, m.triple, "same fact signed again")
			} else {
				salt++
				w.setProposal(c24MakeProposalFact(m.triple, rapid.IntRange(0, 4).Draw(t, "nops"), fmt.Sprintf("s%d", salt)), m.triple, "another fact for a used position")
			}
		case "getProposal":
			_, found, err := w.pool.Proposal(c24Hash(fmt.Sprintf("unknown-%d", i)))
			if err != nil {
				t.Fatalf("Proposal: %v", err)
			}

			if found {
				w.r.Violation(t, "proposal-found-never-stored", "Proposal(unknown fact) finds a proposal; history: %s", w.history())
			}
		case "getByPoint":
			w.checkByPoint(c24DrawTriple(t, base0, span), "lookup")
		case "cleanBallots":
			w.cleanup("ballots")
		case "cleanProposals":
			w.cleanup("proposals")
		case "reopen":
			w.reopen(false)
		case "restart":
			w.reopen(true)
		case "faultSetProposal":
			plan := c24DrawFaultPlan(t)

			var fhs []string

			target := rapid.SampledFrom([]string{"new", "new", "new", "used-position", "stored-fact"}).Draw(t, "target")
			if target != "new" {
				fhs = w.sortedProposals()
			}

			switch {
			case len(fhs) == 0:
				x := c24DrawTriple(t, base0, span)
				salt++
				w.faultSetProposal(c24MakeProposalFact(x, rapid.IntRange(0, 4).Draw(t, "nops"), fmt.Sprintf("s%d", salt)), x, "new fact", plan)
			case target == "used-position":
				m := w.proposals[rapid.SampledFrom(fhs).Draw(t, "which")]
				salt++
				w.faultSetProposal(c24MakeProposalFact(m.triple, rapid.IntRange(0, 4).Draw(t, "nops"), fmt.Sprintf("s%d", salt)), m.triple, "another fact for a used position", plan)
			default:
				m := w.proposals[rapid.SampledFrom(fhs).Draw(t, "which")]
				w.faultSetProposal(m.fact, m.triple, "same fact signed again", plan)
			}
		case "faultSetBallot":
			plan := c24DrawFaultPlan(t)
			w.faultSetBallot(c24DrawKey(t, base0, span), rapid.IntRange(0, 1).Draw(t, "factVariant"), rapid.IntRange(0, 2).Draw(t, "expels"), plan)
		}
	}

	w.checkAll("at the end")
}

// ---- concurrent phase

type c24Obs struct {
	who  string
	seen []string // distinct consecutive renderings observed ("" = not found)
}

// c24PairObs counts what one reader saw in its (Proposal, ProposalByPoint) lookup pairs.
type c24PairObs struct {
	judged                           int // pairs that began after a SetProposal of the fact had returned
	factMissingAfterReturn           int
	pointMissingAfterReturn          int
	pointMissingFactFoundAfterReturn int
	inFlightFactWithoutPoint         int // found by fact, not by point, while no SetProposal had returned yet
}

func (o *c24PairObs) see(after, byFact, byPoint bool) {
	switch {
	case after:
		o.judged++

		if !byFact {
			o.factMissingAfterReturn++
		}

		if !byPoint {
			o.pointMissingAfterReturn++

			if byFact {
				o.pointMissingFactFoundAfterReturn++
			}
		}
	case byFact && !byPoint:
		o.inFlightFactWithoutPoint++
	}
}

func (o *c24Obs) see(s string) {
	if len(o.seen) == 0 || o.seen[len(o.seen)-1] != s {
		o.seen = append(o.seen, s)
	}
}

// concurrentProposals: G writers offer differently signed proposals of ONE fact at the same time (no production lock
// serialises SetProposal: selector, handover and the proposal-fetching path call it independently), readers poll.
func (w *c24World) drawConcurrentProposals(t *rapid.T) {
	g := rapid.IntRange(2, 8).Draw(t, "writers")
	readers := rapid.IntRange(1, 3).Draw(t, "readers")
	nops := rapid.SampledFrom([]int{0, 3, 40, 300}).Draw(t, "nops")
	withCleaner := rapid.Bool().Draw(t, "cleaner")
	// heights above every sequential position (at most 42), so that the position is fresh and the newest in the pool
	x := c24Triple{h: 60 + int64(rapid.IntRange(0, 3).Draw(t, "height")), r: 0, proposer: rapid.IntRange(0, 2).Draw(t, "proposer")}

	w.concurrentProposals(g, readers, nops, withCleaner, x)
}

func (w *c24World) concurrentProposals(g, readers, nops int, withCleaner bool, x c24Triple) {
	t := w.t

	fact := c24MakeProposalFact(x, nops, "conc")
	_, nodes := poolFixtures(nil)

	offers := make([]base.ProposalSignFact, g)
	renders := map[string]int{}

	for i := range offers {
		offers[i] = c24SignProposal(t, fact, x.proposer)
		renders[c24Render(t, w.enc, offers[i])] = i
	}

	if len(renders) != g {
		t.Fatalf("generated proposals are not distinct")
	}

	w.log = append(w.log, fmt.Sprintf("concurrent: %d writers x SetProposal(one fact at %s, %d ops, distinct signatures), %d readers, cleaner=%v", g, x, nops, readers, withCleaner))
	w.nontrivial = true
	w.classes[fmt.Sprintf("conc:proposal-writers:%d", g)] = true

	start := make(chan struct{})

	var wg, rwg sync.WaitGroup

	var done, returned atomic.Bool

	added := make([]bool, g)
	errs := make([]error, g+readers+1)

	for i := 0; i < g; i++ {
		wg.Add(1)

		go func(i int) {
			defer wg.Done()
			<-start

			added[i], errs[i] = w.pool.SetProposal(offers[i])

			if errs[i] == nil {
				returned.Store(true) // from now on the fact is stored, whoever stored it
			}
		}(i)
	}

	obs := make([]*c24Obs, 0, 2*readers)
	pairs := make([]c24PairObs, readers)

	for i := 0; i < readers; i++ {
		byHash, byPoint := &c24Obs{who: fmt.Sprintf("reader%d/Proposal", i)}, &c24Obs{who: fmt.Sprintf("reader%d/ProposalByPoint", i)}
		obs = append(obs, byHash, byPoint)

		rwg.Add(1)

		go func(i int) {
			defer rwg.Done()
			<-start

			for last := false; ; {
				if done.Load() {
					last = true // one more round after all writers returned
				}

				after := returned.Load() // a SetProposal of the fact had returned before this pair of lookups began

				pr, found, err := w.pool.Proposal(fact.Hash())
				if err != nil {
					errs[g+i] = err

					return
				}

				foundByFact := found

				if found {
					b, _ := w.enc.Marshal(pr)
					byHash.see(string(b))
				}

				pr, found, err = w.pool.ProposalByPoint(base.RawPoint(x.h, x.r), nodes[x.proposer], c24Hash(fmt.Sprintf("prevblock-%d", x.prev)))
				if err != nil {
					errs[g+i] = err

					return
				}

				if found {
					b, _ := w.enc.Marshal(pr)
					byPoint.see(string(b))
				}

				pairs[i].see(after, foundByFact, found)

				if last {
					return
				}
			}
		}(i)
	}

	if withCleaner {
		rwg.Add(1)

		go func() {
			defer rwg.Done()
			<-start

			for !done.Load() {
				if _, err := w.pool.VerifCleanProposals(); err != nil {
					errs[g+readers] = err

					return
				}
			}
		}()
	}

	close(start)
	wg.Wait()
	done.Store(true)
	rwg.Wait()

	for _, err := range errs {
		if err != nil {
			t.Fatalf("concurrent phase: %v", err)
		}
	}

	name := func(s string) string {
		if i, ok := renders[s]; ok {
			return fmt.Sprintf("offer%d", i)
		}

		return "FOREIGN"
	}

	trues := 0

	for _, a := range added {
		if a {
			trues++
		}
	}

	final, found, err := w.pool.Proposal(fact.Hash())
	if err != nil {
		t.Fatalf("Proposal: %v", err)
	}

	// heights 60..63 are the newest in the pool: the concurrent cleaner may never remove this proposal
	if !found {
		w.r.Violation(t, "concurrent-proposal-lost", "after %d concurrent SetProposal calls for one fact (returned %v) the proposal is not stored; history: %s", g, added, w.history())

		return
	}

	finalS := c24Render(t, w.enc, final)
	if _, ok := renders[finalS]; !ok {
		w.r.Violation(t, "concurrent-proposal-foreign", "the stored proposal is none of the %d offered ones; history: %s", g, w.history())
	}

	// Once a SetProposal of the fact returned, the pool keeps a proposal for it (heights 60..63 / 40 are the newest, no
	// cleanup may remove it): from then on every lookup by fact finds it and, by the consistency clause, so does every
	// lookup by its position. Lookups that began before the first return are not judged (counted only).
	for i := range pairs {
		po := &pairs[i]

		switch {
		case po.factMissingAfterReturn > 0:
			w.r.Violation(t, "concurrent-proposal-lost", "reader%d: Proposal(fact) found nothing in %d lookups that began after a SetProposal of that fact had returned (SetProposal returned %v); history: %s",
				i, po.factMissingAfterReturn, added, w.history())
		case po.pointMissingAfterReturn > 0:
			w.r.Violation(t, "concurrent-bypoint-lost", "reader%d: ProposalByPoint(%s) found nothing in %d lookups that began after a SetProposal of that position's only fact had returned (Proposal(fact) found it in %d of them; SetProposal returned %v); history: %s",
				i, x, po.pointMissingAfterReturn, po.pointMissingFactFoundAfterReturn, added, w.history())
		}

		if po.inFlightFactWithoutPoint > 0 {
			w.classes["conc:reader-saw-fact-without-point-before-any-return"] = true
		}

		if po.judged > 0 {
			w.classes["conc:reader-lookups-after-return"] = true
		}
	}

	for _, o := range obs {
		var names []string
		for _, s := range o.seen {
			names = append(names, name(s))
		}

		if len(o.seen) > 1 {
			w.r.Violation(t, "concurrent-setproposal-overwrite", "%s observed the stored proposal change: %v (SetProposal returned %v, finally stored %s); the first stored proposal was overwritten; history: %s",
				o.who, names, added, name(finalS), w.history())
		}

		if len(o.seen) == 1 && o.seen[0] != finalS {
			w.r.Violation(t, "concurrent-setproposal-overwrite", "%s observed %s, finally stored is %s (SetProposal returned %v); the first stored proposal was overwritten; history: %s",
				o.who, name(o.seen[0]), name(finalS), added, w.history())
		}
	}

	switch {
	case trues == 0:
		w.r.Violation(t, "concurrent-setproposal-none-stored", "%d concurrent SetProposal calls for one new fact all returned false; history: %s", g, w.history())
	case trues > 1:
		w.r.Violation(t, "concurrent-setproposal-overwrite", "%d of %d concurrent SetProposal calls for one fact report that they stored their (distinct) proposal: %v, finally stored %s; every store after the first overwrote the first writer; history: %s",
			trues, g, added, name(finalS), w.history())
	}

	// keep the model in step for the final sequential check
	w.proposals[fact.Hash().String()] = &c24Proposal{triple: x, fact: fact, first: finalS, offers: g}
	w.byTriple[x] = append(w.byTriple[x], fact.Hash().String())
}

// concurrentBallots: the only production caller of SetBallot (DefaultBallotBroadcaster.set) holds a mutex around it, so
// writers are serialised the same way here; readers are not.
func (w *c24World) concurrentBallots(t *rapid.T) {
	g := rapid.IntRange(2, 6).Draw(t, "writers")
	readers := rapid.IntRange(1, 3).Draw(t, "readers")
	k := c24BallotKey{h: 70 + int64(rapid.IntRange(0, 3).Draw(t, "height")), r: 0, stage: base.StageINIT}

	if rapid.Bool().Draw(t, "accept") {
		k.stage = base.StageACCEPT
	}

	offers := make([]base.Ballot, g)
	renders := map[string]int{}

	for i := range offers {
		offers[i] = c24MakeBallot(t, k, rapid.IntRange(0, 1).Draw(t, "factVariant"), rapid.IntRange(0, 2).Draw(t, "expels"))
		renders[c24Render(t, w.enc, offers[i])] = i
	}

	w.log = append(w.log, fmt.Sprintf("concurrent: %d serialised writers x SetBallot(%s), %d readers", g, k, readers))
	w.nontrivial = true
	w.classes["conc:ballots"] = true

	start := make(chan struct{})

	var wg, rwg sync.WaitGroup

	var done atomic.Bool

	var broadcasterLock sync.Mutex

	added := make([]bool, g)
	errs := make([]error, g+readers)

	for i := 0; i < g; i++ {
		wg.Add(1)

		go func(i int) {
			defer wg.Done()
			<-start

			broadcasterLock.Lock()
			defer broadcasterLock.Unlock()

			added[i], errs[i] = w.pool.SetBallot(offers[i])
		}(i)
	}

	obs := make([]*c24Obs, readers)

	for i := 0; i < readers; i++ {
		obs[i] = &c24Obs{who: fmt.Sprintf("reader%d", i)}

		rwg.Add(1)

		go func(i int) {
			defer rwg.Done()
			<-start

			for last := false; ; {
				if done.Load() {
					last = true
				}

				bl, found, err := w.pool.Ballot(k.point(), k.stage, k.sc)
				if err != nil {
					errs[g+i] = err

					return
				}

				if found {
					b, _ := w.enc.Marshal(bl)
					obs[i].see(string(b))
				}

				if last {
					return
				}
			}
		}(i)
	}

	close(start)
	wg.Wait()
	done.Store(true)
	rwg.Wait()

	for _, err := range errs {
		if err != nil {
			t.Fatalf("concurrent phase: %v", err)
		}
	}

	trues := 0

	for _, a := range added {
		if a {
			trues++
		}
	}

	final, found, err := w.pool.Ballot(k.point(), k.stage, k.sc)
	if err != nil {
		t.Fatalf("Ballot: %v", err)
	}

	if !found {
		w.r.Violation(t, "concurrent-ballot-lost", "after %d SetBallot calls for %s (returned %v) no ballot is stored; history: %s", g, k, added, w.history())

		return
	}

	finalS := c24Render(t, w.enc, final)

	for _, o := range obs {
		if len(o.seen) > 1 || (len(o.seen) == 1 && o.seen[0] != finalS) {
			w.r.Violation(t, "ballot-overwritten", "%s observed %d different ballots for %s (SetBallot returned %v); the first stored ballot was overwritten; history: %s",
				o.who, len(o.seen)+1, k, added, w.history())
		}
	}

	if trues != 1 {
		w.r.Violation(t, "ballot-overwritten", "%d of %d serialised SetBallot calls for %s report that they stored their ballot: %v; history: %s", trues, g, k, added, w.history())
	}

	if i, ok := renders[finalS]; !ok || !added[i] {
		w.r.Violation(t, "ballot-not-first-writer", "the ballot stored for %s is not the one whose SetBallot returned true (%v); history: %s", k, added, w.history())
	}

	w.ballots[k] = &c24Ballot{key: k, first: finalS, offers: g}
}

func TestC24(t *testing.T) {
	r := ev.Start(t, "C24")
	defer r.Finish()
	r.Rule("real TempPool over mem leveldb. Sequential part: 14 (quick) / 24 (thorough) drawn steps over a window of 1, 2, 3, 4, 5 or 10 heights (base height 0, 1, 2 or 33, so that the newest stored height is 0..4 " +
		"(below / at / just above the cleanup depth) as well as 30+; rounds 0..2, round 0 only at the genesis height; " +
		"INIT/ACCEPT/suffrage-confirm keys; 3 proposers x 2 previous blocks): SetBallot (new key / second ballot for a stored key, same fact signed again or another fact, 0..2 expel operations), " +
		"Ballot, SetProposal (new fact / same fact signed again / another fact for a used position), Proposal, ProposalByPoint, ballot and proposal cleanup (hook H4, depth 3), reopen of the pool, restart (close and open the leveldb storage from its files again), " +
		"SetProposal / SetBallot while the storage refuses the 1st, 2nd or 3rd write of the call (hook H3; only that write or every later one too) followed by nothing / the same call again / reopen / restart / two of them: " +
		"a call that returned an error leaves nothing or everything (found by fact <=> found by position, the offered value), the repeated call stores it or finds it stored; " +
		"after every step the touched keys, after cleanup/reopen and at the end all keys are compared with a first-writer-wins map (byte-identical re-encoding). " +
		"Fault trials first: every (SetProposal of a new fact / of another fact for a used position / of a stored fact, SetBallot of a new / a stored key) x refused write 1..3 x once/from-then-on x 8 follow-ups on a pool holding one proposal and one ballot. " +
		"Race trials then: 120 (quick) / 1600 (thorough) trials on an empty pool, 2-6 goroutines released together store distinctly signed proposals of one fact (0/40/300 operations) while 1-2 readers poll. " +
		"Concurrent part (after the sequential one, same pool): 2-8 goroutines released together call SetProposal with distinctly signed proposals of one fact (0..300 operations) while 1-3 readers poll " +
		"Proposal/ProposalByPoint and optionally a goroutine runs the proposal cleanup; 2-6 SetBallot writers serialised by a mutex (as DefaultBallotBroadcaster does) with unsynchronised readers. " +
		"Oracles sound for every interleaving: no reader ever sees the stored value change, exactly one writer reports 'stored', the stored value is an offered one, " +
		"a reader whose lookups began after some SetProposal of the fact returned finds it by fact and by position. " +
		"non-trivial: two different values were offered for one key; distinct by the step history")
	r.Floor(100)
	r.Assume("SetBallot calls are serialised (DefaultBallotBroadcaster.set holds a mutex; it is the only production caller); SetProposal calls are not",
		"'newest height' of a cleanup is the newest height present in the pool being cleaned (ballots and proposals separately); the cleanup clause is one-sided (removes only ...)",
		"while the newest height is below the depth (0..2) no entry is 'at least the depth below the newest height', so a cleanup may remove nothing; the genesis point (0,0) is a valid key (base.Point.IsValid accepts it, the pool API does not exclude it)",
		"for a position (point, proposer, previous block) under which an equivocating proposer stored several facts, the by-point lookup may return any of the stored first proposals",
		"'unchanged' is judged on the JSON re-encoding of the returned object (codec faithfulness is C27's subject)",
		"a storage fault is a refused write (Put/Delete/Batch returns an error and nothing of it is stored; goleveldb's atomicity of one write is trusted); the consistency clause has no exception for failed calls: "+
			"whenever Proposal(fact) finds a proposal, ProposalByPoint of its position finds one too (that same one unless the position is equivocated)",
		"a by-point entry whose proposal is not stored is invisible through the pool's lookups and is not judged")

	encs, enc := poolEncoders(t)
	poolFixtures(t)

	newWorld := func(tb ev.TB) (*c24World, func()) {
		str := leveldbStorage.NewMemStorage()

		st, err := leveldbstorage.NewStorage(str, nil)
		if err != nil {
			tb.Fatalf("new storage: %v", err)
		}

		w := &c24World{
			t: tb, r: r, enc: enc, encs: encs, str: str, st: st, fault: &c24Fault{},
			ballots: map[c24BallotKey]*c24Ballot{}, proposals: map[string]*c24Proposal{},
			byTriple: map[c24Triple][]string{}, cleaned: map[c24Triple]bool{}, multi: map[c24Triple]bool{}, classes: map[string]bool{},
		}
		w.pool = newTempPool(tb, st, encs, enc, 0)
		c24Faults.Store(st, w.fault)

		return w, func() {
			c24Faults.Delete(w.st)
			_ = w.pool.Close()
			_ = w.st.Close() // w.st: a restart step replaces the storage
		}
	}

	leveldbstorage.VerifSetFaultController(c24FaultController)
	defer leveldbstorage.VerifSetFaultController(nil)

	// ---- fault trials: every (call, refused write, follow-up) on a pool that already holds one proposal and one ballot
	t.Run("fault-trials", func(t *testing.T) {
		targets := []string{"proposal:new", "proposal:used-position", "proposal:stored-fact", "ballot:new", "ballot:stored-key"}
		i := 0

		for _, target := range targets {
			for k := 1; k <= 3; k++ {
				for _, sticky := range []bool{false, true} {
					for _, follow := range c24Follows {
						// a call for a stored fact / key returns before it writes: one plan per follow-up is enough
						if strings.Contains(target, ":stored-") && (k > 1 || sticky) {
							continue
						}

						i++

						if !r.Mine(i) {
							continue
						}

						plan := c24FaultPlan{k: k, sticky: sticky, follow: follow}

						w, closef := newWorld(t)

						prior := c24Triple{h: 33, proposer: 1}
						priorFact := c24MakeProposalFact(prior, 1, "prior")
						w.setProposal(priorFact, prior, "new fact")

						priorKey := c24BallotKey{h: 33, stage: base.StageINIT}
						w.setBallot(priorKey, 0, 0)

						switch target {
						case "proposal:new":
							x := c24Triple{h: 34, r: 1, proposer: 2, prev: 1}
							w.faultSetProposal(c24MakeProposalFact(x, 2, "trial"), x, "new fact", plan)
						case "proposal:used-position":
							w.faultSetProposal(c24MakeProposalFact(prior, 2, "trial"), prior, "another fact for a used position", plan)
						case "proposal:stored-fact":
							w.faultSetProposal(priorFact, prior, "same fact signed again", plan)
						case "ballot:new":
							w.faultSetBallot(c24BallotKey{h: 34, r: 1, stage: base.StageACCEPT}, 0, 1, plan)
						case "ballot:stored-key":
							w.faultSetBallot(priorKey, 1, 0, plan)
						}

						w.checkAll("at the end")
						closef()

						r.Case(fmt.Sprintf("fault-trial:%s:%s:%s", target, plan, follow), w.nontrivial, append(w.classList(), "fault-trial")...)
					}
				}
			}
		}
	})

	if t.Failed() {
		return
	}

	// ---- race trials on an empty pool (the minimal concurrent history): N writers store distinctly signed proposals of
	// one fact at once. The schedule is the Go scheduler's; the oracle is sound for every interleaving.
	t.Run("race-trials", func(t *testing.T) {
		trials := r.N(120, 1600)

		for i := 0; i < trials; i++ {
			if !r.Mine(i) {
				continue
			}

			w, closef := newWorld(t)
			w.concurrentProposals(2+i%5, 1+i%2, []int{0, 40, 300}[i%3], false, c24Triple{h: 40, proposer: i % 3})
			closef()

			r.Case(fmt.Sprintf("race-trial:%d", i), true, "race-trial")
		}
	})

	if t.Failed() {
		return
	}

	steps := r.N(14, 24)
	r.Checks(300, 12000)
	r.ShrinkTime(15 * time.Second)

	rapid.Check(t, func(rt *rapid.T) {
		w, closef := newWorld(rt)
		defer closef()

		w.sequential(rt, steps)

		switch rapid.SampledFrom([]string{"none", "proposals", "proposals", "ballots", "both"}).Draw(rt, "concurrentPhase") {
		case "proposals":
			w.drawConcurrentProposals(rt)
		case "ballots":
			w.concurrentBallots(rt)
		case "both":
			w.concurrentBallots(rt)
			w.drawConcurrentProposals(rt)
		}

		r.Case(w.history(), w.nontrivial, w.classList()...)

		if w.nontrivial && r.WantSample() {
			r.Sample(map[string]any{"history": w.log})
		}
	})
}
