package p_pool

import (
	"bytes"
	"context"
	"fmt"
	"sort"
	"strings"
	"testing"
	"time"

	leveldbstorage "github.com/spikeekips/mitum/storage/leveldb"
	leveldbutil "github.com/syndtr/goleveldb/leveldb/util"
	"pgregory.net/rapid"
	"verif/internal/ev"
)

// C25: prefix storage isolates prefixes. One Go map of raw keys is the model; every view (prefixed or raw) is
// compared with the map after every step.

// prefix-free families that look alike (mitum's own prefixes are fixed-length labels; prefix-freeness is the input
// domain decision recorded in DESIGN section 5).
var c25Families = [][]string{
	{"ab", "ac"},
	{"a\x00", "a\x01"},
	{"\xff\xfe", "\xff\xff"},
	{"\x01\x02", "\x01\x03", "\x01\x04"},
	{"a", "ba", "bb\x00"},
	{"p\xff", "q"},
	{"\xfe\xff", "\xff"},
	{"\x00", "\x01\x00", "\x01\x01", "\x02"},
	{"ab\xff\xff", "ac", "ab\xff\xfe"},
}

var c25Alphabet = []byte{0x00, 0x01, 'a', 'b', 'c', 0xfe, 0xff}

type c25World struct {
	t        *rapid.T
	r        *ev.Rec
	st       *leveldbstorage.Storage
	prefixes []string
	views    []*leveldbstorage.PrefixStorage
	model    map[string][]byte
	log      []string
	boundary bool // a removal/iteration touching a prefix boundary ran while >= 2 prefixes were populated
	classes  map[string]bool
	focus    int  // >= 0: the view a bulk history keeps coming back to (3 of 4 steps go to it)
	reused   bool // a bulk history wrote through the focus view again after its bulk removal
}

// c25Show prints a key list in full when it is short and abbreviated (head, tail, count) when it is long, so that the
// message of a violation in a bulk history stays readable and identical for the same input.
func c25Show(ks []string) string {
	if len(ks) <= 24 {
		return fmt.Sprintf("%q", ks)
	}

	return fmt.Sprintf("%q ...(%d keys)... %q", ks[:6], len(ks), ks[len(ks)-6:])
}

// c25Diff returns the keys of want that got lacks and the keys of got that want lacks (both sorted inputs).
func c25Diff(got, want []string) (missing, unexpected []string) {
	g := map[string]bool{}
	for _, k := range got {
		g[k] = true
	}

	m := map[string]bool{}
	for _, k := range want {
		m[k] = true

		if !g[k] {
			missing = append(missing, k)
		}
	}

	for _, k := range got {
		if !m[k] {
			unexpected = append(unexpected, k)
		}
	}

	return missing, unexpected
}

func (w *c25World) sortedKeys() []string {
	ks := make([]string, 0, len(w.model))
	for k := range w.model {
		ks = append(ks, k)
	}

	sort.Strings(ks)

	return ks
}

func (w *c25World) keysUnder(prefix string) []string {
	var ks []string

	for _, k := range w.sortedKeys() {
		if strings.HasPrefix(k, prefix) {
			ks = append(ks, k)
		}
	}

	return ks
}

func (w *c25World) populated() int {
	n := 0

	for _, p := range w.prefixes {
		if len(w.keysUnder(p)) > 0 {
			n++
		}
	}

	return n
}

func (w *c25World) note(format string, a ...any) {
	w.log = append(w.log, fmt.Sprintf(format, a...))
}

func (w *c25World) history() string {
	return strings.Join(w.log, " ; ")
}

func c25InRange(k string, start, limit []byte) bool {
	if start != nil && k < string(start) {
		return false
	}

	if limit != nil && k >= string(limit) {
		return false
	}

	return true
}

// checkRaw compares the whole raw database with the model (the isolation oracle: nothing outside the touched set may
// change, nothing inside may survive).
func (w *c25World) checkRaw(after string) {
	var gotK []string

	var gotV [][]byte

	if err := w.st.Iter(nil, func(k, v []byte) (bool, error) {
		gotK = append(gotK, string(k))
		gotV = append(gotV, v)

		return true, nil
	}, true); err != nil {
		w.t.Fatalf("raw iter: %v", err)
	}

	want := w.sortedKeys()

	sig, detail := "", ""

	switch {
	case len(gotK) != len(want):
		sig = "raw-keyset-differs"
	default:
		for i := range want {
			if gotK[i] != want[i] {
				sig = "raw-keyset-differs"

				break
			}

			if !bytes.Equal(gotV[i], w.model[want[i]]) {
				sig = "raw-value-differs"
				detail = fmt.Sprintf(" key %q: got %q want %q", want[i], gotV[i], w.model[want[i]])

				break
			}
		}
	}

	if sig != "" {
		// classify by what happened: a key outside the operation's target changed, or a targeted key survived
		missing, unexpected := c25Diff(gotK, want)
		w.r.Violation(w.t, after+"-"+sig, "after %s the database differs from the model%s: keys the database lost %s, keys that should be gone or were never written %s; database keys %s, model keys %s; prefixes %q; history: %s",
			after, detail, c25Show(missing), c25Show(unexpected), c25Show(gotK), c25Show(want), w.prefixes, w.history())
	}
}

// checkViews compares every prefixed view (Iter nil, ascending) with the model filtered by that prefix.
func (w *c25World) checkViews() {
	for i, v := range w.views {
		var got []string

		if err := v.Iter(nil, func(k, b []byte) (bool, error) {
			got = append(got, string(k))

			if !bytes.Equal(b, w.model[w.prefixes[i]+string(k)]) {
				w.r.Violation(w.t, "view-value-differs", "view %q Iter delivered key %q with value %q, model has %q; history: %s",
					w.prefixes[i], k, b, w.model[w.prefixes[i]+string(k)], w.history())
			}

			return true, nil
		}, true); err != nil {
			// no fault is injected here and every earlier operation succeeded: a view that cannot iterate its own keys
			// (e.g. because its range reaches keys of another prefix) is not isolated - a verdict, not a harness error
			w.r.Violation(w.t, "view-iter-error", "view %q Iter(nil) failed on a healthy database: %v; prefixes %q; history: %s",
				w.prefixes[i], err, w.prefixes, w.history())
		}

		var want []string
		for _, k := range w.keysUnder(w.prefixes[i]) {
			want = append(want, k[len(w.prefixes[i]):])
		}

		if fmt.Sprint(got) != fmt.Sprint(want) || len(got) != len(want) {
			missing, unexpected := c25Diff(got, want)
			w.r.Violation(w.t, "view-keyset-differs", "view %q Iter(nil) sees keys %s, the model has %s under that prefix (not delivered %s, delivered but not in the model %s; all raw keys %s); history: %s",
				w.prefixes[i], c25Show(got), c25Show(want), c25Show(missing), c25Show(unexpected), c25Show(w.sortedKeys()), w.history())
		}
	}
}

func c25Suffix(t *rapid.T, label string) []byte {
	return rapid.SliceOfN(rapid.SampledFrom(c25Alphabet), 1, 3).Draw(t, label)
}

func c25Value(t *rapid.T) []byte {
	return rapid.SliceOfN(rapid.Byte(), 0, 6).Draw(t, "value")
}

// suffixFor draws a stripped key for view i: an existing one (so reads hit) or a fresh one.
func (w *c25World) suffixFor(i int, label string) []byte {
	under := w.keysUnder(w.prefixes[i])

	var cand []string

	for _, k := range under {
		if len(k) > len(w.prefixes[i]) {
			cand = append(cand, k[len(w.prefixes[i]):])
		}
	}

	if len(cand) > 0 && rapid.IntRange(0, 2).Draw(w.t, label+"Existing") > 0 {
		return []byte(rapid.SampledFrom(cand).Draw(w.t, label+"Pick"))
	}

	return c25Suffix(w.t, label)
}

// rawKey draws a raw key: under a prefix, a boundary neighbour of a prefix, or an arbitrary short string.
func (w *c25World) rawKey(label string) []byte {
	switch rapid.IntRange(0, 5).Draw(w.t, label+"Kind") {
	case 0, 1:
		p := rapid.SampledFrom(w.prefixes).Draw(w.t, label+"Prefix")

		return append([]byte(p), c25Suffix(w.t, label+"Suffix")...)
	case 2:
		// neighbours of a prefix: the prefix itself, the prefix cut by one byte, its successor, its predecessor + 0xff
		p := []byte(rapid.SampledFrom(w.prefixes).Draw(w.t, label+"Prefix"))

		switch rapid.IntRange(0, 3).Draw(w.t, label+"Neighbour") {
		case 0:
			return p
		case 1:
			if len(p) > 1 {
				return p[:len(p)-1]
			}

			return append(p, 0x00)
		case 2:
			if lim := leveldbutil.BytesPrefix(p).Limit; lim != nil {
				return lim
			}

			return append(p, 0xff)
		default:
			q := append([]byte(nil), p...)
			if q[len(q)-1] > 0 {
				q[len(q)-1]--

				return append(q, 0xff, 0xff)
			}

			if len(q) > 1 {
				return q[:len(q)-1]
			}

			return append(q, 0x00)
		}
	case 3:
		ks := w.sortedKeys()
		if len(ks) > 0 {
			return []byte(rapid.SampledFrom(ks).Draw(w.t, label+"Pick"))
		}

		fallthrough
	default:
		return rapid.SliceOfN(rapid.SampledFrom(c25Alphabet), 1, 4).Draw(w.t, label+"Free")
	}
}

func (w *c25World) touch(kind string) {
	w.classes["op:"+kind] = true
}

func (w *c25World) markBoundary() {
	if w.populated() >= 2 {
		w.boundary = true
	}
}

// iterCompare runs view i's Iter over rg (nil, or stripped start/limit, each nil or non-empty) and compares what the
// callback received with the model: only keys under the prefix and inside the range, in order, with their values, and
// nothing after the callback said stop.
func (w *c25World) iterCompare(i int, rg *leveldbutil.Range, asc bool, stopAfter int) {
	t, v, p := w.t, w.views[i], w.prefixes[i]

	var start, limit []byte
	if rg != nil {
		start, limit = rg.Start, rg.Limit
	}

	var got []string

	if err := v.Iter(rg, func(k, b []byte) (bool, error) {
		got = append(got, string(k))

		if want, ok := w.model[p+string(k)]; !ok || !bytes.Equal(want, b) {
			w.r.Violation(t, "iter-foreign-or-stale", "view[%q].Iter(start=%q limit=%q asc=%v) delivered (%q,%q); the model has (%q,%v) for that key; history: %s",
				p, start, limit, asc, k, b, want, ok, w.history())
		}

		return stopAfter == 0 || len(got) < stopAfter, nil
	}, asc); err != nil {
		w.r.Violation(t, "view-iter-error", "view[%q].Iter(start=%q limit=%q asc=%v) failed on a healthy database: %v; prefixes %q; history: %s",
			p, start, limit, asc, err, w.prefixes, w.history())
	}

	var want []string

	for _, k := range w.keysUnder(p) {
		s := k[len(p):]
		if c25InRange(s, start, limit) {
			want = append(want, s)
		}
	}

	if !asc {
		for a, b := 0, len(want)-1; a < b; a, b = a+1, b-1 {
			want[a], want[b] = want[b], want[a]
		}
	}

	if stopAfter > 0 && len(want) > stopAfter {
		want = want[:stopAfter]
	}

	if len(got) != len(want) || fmt.Sprintf("%q", got) != fmt.Sprintf("%q", want) {
		w.r.Violation(t, "iter-range-differs", "view[%q].Iter(start=%q limit=%q asc=%v stopAfter=%d) delivered %s, the model has %s (all raw keys %s); history: %s",
			p, start, limit, asc, stopAfter, c25Show(got), c25Show(want), c25Show(w.sortedKeys()), w.history())
	}

	if start == nil || limit == nil {
		w.markBoundary()
	}
}

// removeView calls Remove() on view i: exactly the model keys under its prefix must be gone from the shared database.
func (w *c25World) removeView(i int) {
	p := w.prefixes[i]

	w.markBoundary()
	w.note("view[%q].Remove()", p)

	if err := w.views[i].Remove(); err != nil {
		w.t.Fatalf("remove: %v", err)
	}

	for _, k := range w.keysUnder(p) {
		delete(w.model, k)
	}

	w.checkRaw("remove")
}

func (w *c25World) step() {
	t := w.t
	i := rapid.IntRange(0, len(w.views)-1).Draw(t, "view")

	if w.focus >= 0 && rapid.IntRange(0, 3).Draw(t, "focusBias") > 0 {
		i = w.focus
	}

	v := w.views[i]
	p := w.prefixes[i]

	op := rapid.SampledFrom([]string{
		"put", "put", "put", "get", "exists", "delete", "batch", "batch", "iter", "iter", "iter",
		"remove", "removebyprefix", "batchremove", "batchremove", "rawput", "rawput", "rawdelete", "rawget", "rawiter", "batchfunc",
	}).Draw(t, "op")
	w.touch(op)

	switch op {
	case "put":
		k, val := w.suffixFor(i, "key"), c25Value(t)
		w.note("view[%q].Put(%q,%q)", p, k, val)

		if err := v.Put(k, val, nil); err != nil {
			t.Fatalf("put: %v", err)
		}

		w.model[p+string(k)] = val
		w.checkRaw("put")
	case "get":
		k := w.suffixFor(i, "key")
		b, found, err := v.Get(k)

		if err != nil {
			t.Fatalf("get: %v", err)
		}

		want, ok := w.model[p+string(k)]
		if found != ok || (ok && !bytes.Equal(b, want)) {
			w.r.Violation(t, "get-differs", "view[%q].Get(%q) = (%q,%v), model has (%q,%v); history: %s", p, k, b, found, want, ok, w.history())
		}
	case "exists":
		k := w.suffixFor(i, "key")
		found, err := v.Exists(k)

		if err != nil {
			t.Fatalf("exists: %v", err)
		}

		if _, ok := w.model[p+string(k)]; ok != found {
			w.r.Violation(t, "exists-differs", "view[%q].Exists(%q) = %v, model says %v; history: %s", p, k, found, ok, w.history())
		}
	case "delete":
		k := w.suffixFor(i, "key")
		w.note("view[%q].Delete(%q)", p, k)

		if err := v.Delete(k, nil); err != nil {
			t.Fatalf("delete: %v", err)
		}

		delete(w.model, p+string(k))
		w.checkRaw("delete")
	case "batch":
		n := rapid.IntRange(1, 5).Draw(t, "batchN")
		batch := v.NewBatch()

		var desc []string

		for j := 0; j < n; j++ {
			k := w.suffixFor(i, "key")

			if rapid.IntRange(0, 2).Draw(t, "batchDel") == 0 {
				batch.Delete(k)
				delete(w.model, p+string(k))
				desc = append(desc, fmt.Sprintf("del %q", k))
			} else {
				val := c25Value(t)
				batch.Put(k, val)
				w.model[p+string(k)] = val
				desc = append(desc, fmt.Sprintf("put %q=%q", k, val))
			}
		}

		w.note("view[%q].Batch(%s)", p, strings.Join(desc, ","))

		if err := v.Batch(batch, nil); err != nil {
			t.Fatalf("batch: %v", err)
		}

		w.checkRaw("batch")
	case "batchfunc":
		n := rapid.IntRange(1, 6).Draw(t, "batchN")
		size := rapid.IntRange(1, 3).Draw(t, "batchSize")
		add, done, cancel := v.BatchFunc(context.Background(), uint64(size), nil)

		var desc []string

		for j := 0; j < n; j++ {
			k, val := w.suffixFor(i, "key"), c25Value(t)
			isdel := rapid.IntRange(0, 3).Draw(t, "batchDel") == 0

			if err := add(func(b leveldbstorage.LeveldbBatch) {
				if isdel {
					b.Delete(k)
				} else {
					b.Put(k, val)
				}
			}, func(f func() error) error { return f() }); err != nil {
				t.Fatalf("batchfunc add: %v", err)
			}

			if isdel {
				delete(w.model, p+string(k))
				desc = append(desc, fmt.Sprintf("del %q", k))
			} else {
				w.model[p+string(k)] = val
				desc = append(desc, fmt.Sprintf("put %q=%q", k, val))
			}
		}

		if err := done(func(f func() error) error { return f() }); err != nil {
			t.Fatalf("batchfunc done: %v", err)
		}

		cancel()
		w.note("view[%q].BatchFunc(size %d: %s)", p, size, strings.Join(desc, ","))
		w.checkRaw("batchfunc")
	case "iter":
		var rg *leveldbutil.Range

		kind := rapid.IntRange(0, 4).Draw(t, "rangeKind")

		switch kind {
		case 0: // nil range
		case 1: // BytesPrefix of a short stripped prefix (the way every mitum caller builds ranges)
			sp := rapid.SliceOfN(rapid.SampledFrom(c25Alphabet), 1, 2).Draw(t, "subPrefix")
			rg = leveldbutil.BytesPrefix(sp)
		default:
			rg = &leveldbutil.Range{}
			if kind != 2 {
				rg.Start = w.suffixFor(i, "start")
			}

			if kind != 3 {
				rg.Limit = w.suffixFor(i, "limit")
			}
		}

		asc := rapid.Bool().Draw(t, "ascending")
		stopAfter := rapid.IntRange(0, 6).Draw(t, "stopAfter") // 0: never stop

		w.iterCompare(i, rg, asc, stopAfter)
	case "remove":
		w.removeView(i)
	case "removebyprefix":
		// a whole prefix, a sub-prefix inside a view, or a neighbour string
		target := []byte(p)

		switch rapid.IntRange(0, 3).Draw(t, "targetKind") {
		case 0:
			target = append(target, rapid.SampledFrom(c25Alphabet).Draw(t, "sub"))
		case 1:
			target = w.rawKey("target")
		}

		w.markBoundary()
		w.note("RemoveByPrefix(%q)", target)

		if err := leveldbstorage.RemoveByPrefix(w.st, target); err != nil {
			t.Fatalf("removebyprefix: %v", err)
		}

		for _, k := range w.keysUnder(string(target)) {
			delete(w.model, k)
		}

		w.checkRaw("removebyprefix")
	case "batchremove":
		var rg *leveldbutil.Range

		var start, limit []byte

		switch rapid.IntRange(0, 4).Draw(t, "rangeKind") {
		case 0:
			w.markBoundary()
		case 1, 2:
			rg = leveldbutil.BytesPrefix([]byte(p))
			start, limit = rg.Start, rg.Limit
			w.markBoundary()
		default:
			rg = &leveldbutil.Range{}
			if rapid.Bool().Draw(t, "hasStart") {
				start = w.rawKey("start")
				rg.Start = start
			}

			if rapid.Bool().Draw(t, "hasLimit") {
				limit = w.rawKey("limit")
				rg.Limit = limit
			}
		}

		lim := rapid.IntRange(1, 7).Draw(t, "batchLimit")
		w.note("BatchRemove(start=%q limit=%q, %d)", start, limit, lim)

		removed, err := leveldbstorage.BatchRemove(w.st, rg, lim)
		if err != nil {
			t.Fatalf("batchremove: %v", err)
		}

		want := 0

		for _, k := range w.sortedKeys() {
			if c25InRange(k, start, limit) {
				delete(w.model, k)
				want++
			}
		}

		w.checkRaw("batchremove")

		if removed != want {
			w.r.Violation(t, "batchremove-count", "BatchRemove(start=%q limit=%q, %d) reports %d removed keys, %d keys were in the range; history: %s",
				start, limit, lim, removed, want, w.history())
		}
	case "rawput":
		k, val := w.rawKey("raw"), c25Value(t)
		w.note("raw.Put(%q,%q)", k, val)

		if err := w.st.Put(k, val, nil); err != nil {
			t.Fatalf("raw put: %v", err)
		}

		w.model[string(k)] = val
	case "rawdelete":
		k := w.rawKey("raw")
		w.note("raw.Delete(%q)", k)

		if err := w.st.Delete(k, nil); err != nil {
			t.Fatalf("raw delete: %v", err)
		}

		delete(w.model, string(k))
	case "rawget":
		k := w.rawKey("raw")
		b, found, err := w.st.Get(k)

		if err != nil {
			t.Fatalf("raw get: %v", err)
		}

		want, ok := w.model[string(k)]
		if found != ok || (ok && !bytes.Equal(b, want)) {
			w.r.Violation(t, "rawget-differs", "raw.Get(%q) = (%q,%v), model has (%q,%v); history: %s", k, b, found, want, ok, w.history())
		}
	case "rawiter":
		w.checkRaw("rawiter")
	}

	w.checkViews()
}

// Bulk histories: one view is filled with a large keyset, removed as a whole and then used again as the SAME
// PrefixStorage value. Sizes run from empty to beyond a thousand keys, so that removal code working in chunks, pages or
// resumable ranges crosses its internal boundaries; nothing it remembers from one removal may show in later operations.
var c25BulkSizes = []int{0, 1, 332, 333, 334, 700, 1000}

func c25BulkBucket(n int) string {
	for _, s := range c25BulkSizes {
		if n == s {
			return fmt.Sprintf("bulk:n=%d", n)
		}
	}

	switch {
	case n < 332:
		return "bulk:n=2..331"
	case n < 700:
		return "bulk:n=335..699"
	case n < 1000:
		return "bulk:n=701..999"
	default:
		return "bulk:n=1001.."
	}
}

// bulkFill writes n keys stem+"0000".. through (or, for via=raw, below) view i and returns the stripped keys in order.
func (w *c25World) bulkFill(i int) []string {
	t, v, p := w.t, w.views[i], w.prefixes[i]

	n := 0
	if rapid.IntRange(0, 3).Draw(t, "bulkSizeKind") > 0 {
		n = rapid.SampledFrom(c25BulkSizes).Draw(t, "bulkN")
	} else {
		n = rapid.IntRange(2, 1200).Draw(t, "bulkNFree")
	}

	stem := rapid.SliceOfN(rapid.SampledFrom(c25Alphabet), 0, 2).Draw(t, "bulkStem")
	via := rapid.SampledFrom([]string{"put", "batch", "batchfunc", "rawput"}).Draw(t, "bulkVia")
	tag := rapid.Byte().Draw(t, "bulkTag")

	keys := make([]string, n)
	for j := range keys {
		keys[j] = fmt.Sprintf("%s%04d", stem, j)
	}

	val := func(j int) []byte { return []byte{tag, byte(j), byte(j >> 8)} }

	w.note("view[%q].fill(%d keys %q+0000.. via %s, tag %d)", p, n, stem, via, tag)
	w.classes[c25BulkBucket(n)] = true
	w.classes["bulk:via="+via] = true

	switch via {
	case "put":
		for j, k := range keys {
			if err := v.Put([]byte(k), val(j), nil); err != nil {
				t.Fatalf("bulk put: %v", err)
			}
		}
	case "rawput":
		for j, k := range keys {
			if err := w.st.Put([]byte(p+k), val(j), nil); err != nil {
				t.Fatalf("bulk raw put: %v", err)
			}
		}
	case "batch":
		batch := v.NewBatch()
		for j, k := range keys {
			batch.Put([]byte(k), val(j))
		}

		if err := v.Batch(batch, nil); err != nil {
			t.Fatalf("bulk batch: %v", err)
		}
	case "batchfunc":
		size := rapid.SampledFrom([]int{1, 100, 333, 5000}).Draw(t, "bulkBatchSize")
		add, done, cancel := v.BatchFunc(context.Background(), uint64(size), nil)

		for j, k := range keys {
			j, k := j, k

			if err := add(func(b leveldbstorage.LeveldbBatch) { b.Put([]byte(k), val(j)) },
				func(f func() error) error { return f() }); err != nil {
				t.Fatalf("bulk batchfunc add: %v", err)
			}
		}

		if err := done(func(f func() error) error { return f() }); err != nil {
			t.Fatalf("bulk batchfunc done: %v", err)
		}

		cancel()
	}

	for j, k := range keys {
		w.model[p+k] = val(j)
	}

	w.checkRaw("fill")
	w.checkViews()

	return keys
}

// bulkRemoval removes the whole prefix of view i: mostly through the view itself, sometimes through the package
// functions working on the shared storage (the view must cope with either).
func (w *c25World) bulkRemoval(i int) {
	t, p := w.t, w.prefixes[i]

	switch kind := rapid.IntRange(0, 5).Draw(t, "bulkRemovalKind"); kind {
	case 4:
		w.classes["bulk:removal=RemoveByPrefix"] = true
		w.markBoundary()
		w.note("RemoveByPrefix(%q)", p)

		if err := leveldbstorage.RemoveByPrefix(w.st, []byte(p)); err != nil {
			t.Fatalf("removebyprefix: %v", err)
		}

		for _, k := range w.keysUnder(p) {
			delete(w.model, k)
		}

		w.checkRaw("removebyprefix")
	case 5:
		w.classes["bulk:removal=BatchRemove"] = true
		w.markBoundary()

		rg := leveldbutil.BytesPrefix([]byte(p))
		start, limit := rg.Start, rg.Limit
		lim := rapid.SampledFrom([]int{1, 7, 100, 333, 334, 5000}).Draw(t, "bulkBatchLimit")
		w.note("BatchRemove(start=%q limit=%q, %d)", start, limit, lim)

		removed, err := leveldbstorage.BatchRemove(w.st, rg, lim)
		if err != nil {
			t.Fatalf("batchremove: %v", err)
		}

		under := w.keysUnder(p)
		for _, k := range under {
			delete(w.model, k)
		}

		w.checkRaw("batchremove")

		if removed != len(under) {
			w.r.Violation(t, "batchremove-count", "BatchRemove(start=%q limit=%q, %d) reports %d removed keys, %d keys were in the range; history: %s",
				start, limit, lim, removed, len(under), w.history())
		}
	default:
		w.classes["bulk:removal=view.Remove"] = true
		w.removeView(i)
	}

	w.checkViews()
}

// bulkReuse keeps using view i after its prefix was removed: keys below, inside and above the span the removed keys
// covered are written through the view, then nil and partial ranges are iterated in both directions.
func (w *c25World) bulkReuse(i int, former []string) {
	t, v, p := w.t, w.views[i], w.prefixes[i]

	var cand [][]byte

	if len(former) > 0 {
		lo := []byte(former[0])

		switch {
		case lo[len(lo)-1] > 0:
			lo[len(lo)-1]--
		case len(lo) > 1:
			lo = lo[:len(lo)-1]
		default:
			lo = nil // nothing non-empty sorts below "\x00"
		}

		if lo != nil {
			cand = append(cand, lo)
		}

		mid := former[rapid.IntRange(0, len(former)-1).Draw(t, "reuseMid")]
		cand = append(cand, []byte(mid), append([]byte(mid), 'a'), append([]byte(former[len(former)-1]), 0x00))
	}

	cand = append(cand, c25Suffix(t, "reuseFreeA"), c25Suffix(t, "reuseFreeB"))

	var put [][]byte

	for _, k := range cand {
		if !rapid.Bool().Draw(t, "reusePut") {
			continue
		}

		val := c25Value(t)
		w.note("view[%q].Put(%q,%q)", p, k, val)

		if err := v.Put(k, val, nil); err != nil {
			t.Fatalf("put: %v", err)
		}

		w.model[p+string(k)] = val
		w.reused = true
		put = append(put, k)
	}

	w.checkRaw("put")
	w.checkViews()

	for _, asc := range []bool{true, false} {
		w.iterCompare(i, nil, asc, 0)

		for _, k := range put {
			w.iterCompare(i, &leveldbutil.Range{Start: k}, asc, 0)
			w.iterCompare(i, &leveldbutil.Range{Limit: k}, asc, 0)
		}

		if len(put) > 1 {
			a, b := put[0], put[len(put)-1]
			if bytes.Compare(a, b) > 0 {
				a, b = b, a
			}

			w.iterCompare(i, &leveldbutil.Range{Start: a, Limit: b}, asc, 0)
		}
	}
}

// bulkHistory: [0-4 steps] then 1-2 rounds of {fill, 0-3 steps, remove the prefix, reuse, 4-10 steps} on one view and a
// final Remove() of that view; every step is followed by the whole-database and every-view comparison with the model.
func (w *c25World) bulkHistory() {
	t := w.t
	w.focus = rapid.IntRange(0, len(w.views)-1).Draw(t, "focus")
	w.classes["bulk"] = true

	for j, n := 0, rapid.IntRange(0, 4).Draw(t, "preSteps"); j < n; j++ {
		w.step()
	}

	for round, rounds := 0, rapid.IntRange(1, 2).Draw(t, "rounds"); round < rounds; round++ {
		former := w.bulkFill(w.focus)

		for j, n := 0, rapid.IntRange(0, 3).Draw(t, "midSteps"); j < n; j++ {
			w.step()
		}

		w.bulkRemoval(w.focus)
		w.bulkReuse(w.focus, former)

		for j, n := 0, rapid.IntRange(4, 10).Draw(t, "postSteps"); j < n; j++ {
			w.step()
		}
	}

	w.removeView(w.focus)
	w.checkViews()
}

func TestC25(t *testing.T) {
	r := ev.Start(t, "C25")
	defer r.Finish()
	r.Rule("2-4 prefix-free look-alike prefixes (ab/ac, a\\x00/a\\x01, \\xff\\xfe/\\xff\\xff, p\\xff/q, mixed lengths) over one leveldb mem storage; " +
		"30 (quick) / 60 (thorough) drawn steps of Put/Get/Exists/Delete/Batch/BatchFunc/Iter(nil|BytesPrefix|start|limit|both, both directions, early stop)/" +
		"Remove/RemoveByPrefix(prefix|sub-prefix|neighbour)/BatchRemove(nil|prefix range|drawn range, limit 1..7) through the views and Put/Delete/Get/Iter on the raw storage " +
		"(raw keys under a prefix, equal to a prefix, prefix cut by one byte, successor/predecessor of a prefix, free strings over {00,01,a,b,c,fe,ff}); " +
		"after every step the whole raw key space and every view are compared with one Go map. " +
		"1 case in 6 is a bulk history on ONE long-lived PrefixStorage value: 1-2 rounds of {fill the view with 0/1/332/333/334/700/1000 or 2..1200 keys stem+NNNN " +
		"(Put|Batch|BatchFunc|raw Put), 0-3 steps, remove the whole prefix (view.Remove, sometimes RemoveByPrefix or BatchRemove with limit 1..5000), " +
		"write through the same view below/inside/above the span of the removed keys, Iter nil/start/limit/both ranges in both directions, 4-10 steps mostly on that view}, then Remove() again. " +
		"non-trivial: >= 2 prefixes populated while a removal or an iteration reaching a prefix boundary ran (bulk histories: and the view was written again after its removal); distinct by the step history")
	r.Floor(100)
	r.Assume("prefix sets are prefix-free (mitum prefixes are fixed-length labels)",
		"keys, range starts and range limits handed to a view are nil or non-empty (an empty key is how PrefixStorage signals 'closed')",
		"goleveldb itself (ordering, batches, iterators) is trusted")

	steps := r.N(30, 60)
	r.Checks(560, 22000)
	r.ShrinkTime(20 * time.Second)

	rapid.Check(t, func(rt *rapid.T) {
		fam := rapid.SampledFrom(c25Families).Draw(rt, "family")
		st := leveldbstorage.NewMemStorage()

		defer st.Close()

		w := &c25World{t: rt, r: r, st: st, prefixes: fam, model: map[string][]byte{}, classes: map[string]bool{}, focus: -1}
		bulk := rapid.IntRange(0, 5).Draw(rt, "shape") == 0
		for _, p := range fam {
			w.views = append(w.views, leveldbstorage.NewPrefixStorage(st, []byte(p)))
		}

		// seed: a few keys in every prefix and around the boundaries, so isolation is at stake from step 1
		nseed := rapid.IntRange(0, 8).Draw(rt, "seedN")
		for j := 0; j < nseed; j++ {
			k, val := w.rawKey("seed"), c25Value(rt)
			if err := st.Put(k, val, nil); err != nil {
				rt.Fatalf("seed: %v", err)
			}

			w.model[string(k)] = val
			w.note("seed %q=%q", k, val)
		}

		w.checkRaw("seed")

		if bulk {
			w.bulkHistory()
		} else {
			for j := 0; j < steps; j++ {
				w.step()
			}
		}

		nontrivial := w.boundary && (!bulk || w.reused)
		fp := strings.Join(fam, "|") + "#" + w.history()

		classes := []string{fmt.Sprintf("family:%q", fam)}
		for c := range w.classes {
			classes = append(classes, c)
		}

		sort.Strings(classes)

		if w.boundary {
			classes = append(classes, "boundary-op-with-2+-populated")
		}

		r.Case(fp, nontrivial, classes...)

		if nontrivial && r.WantSample() {
			r.Sample(map[string]any{"prefixes": fmt.Sprintf("%q", fam), "steps": len(w.log), "history_head": fmt.Sprintf("%.600s", w.history())})
		}
	})
}
