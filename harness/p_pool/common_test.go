package p_pool

import (
	"fmt"
	"strings"
	"sync"
	"testing"

	"github.com/spikeekips/mitum/base"
	"github.com/spikeekips/mitum/isaac"
	isaacdatabase "github.com/spikeekips/mitum/isaac/database"
	"github.com/spikeekips/mitum/launch"
	leveldbstorage "github.com/spikeekips/mitum/storage/leveldb"
	"github.com/spikeekips/mitum/util/encoder"
	jsonenc "github.com/spikeekips/mitum/util/encoder/json"
	"verif/internal/ev"
)

// Shared fixtures of the pool checks (C22-C25): encoders with every production hinter plus the in-tree dummy
// operation, a fixed network id and a small set of deterministic key pairs / node addresses.

var poolNetworkID = base.NetworkID([]byte("verif-pool-network"))

var (
	poolEncsOnce sync.Once
	poolEncs     *encoder.Encoders
	poolEnc      *jsonenc.Encoder
	poolEncsErr  error
)

func poolEncoders(t testing.TB) (*encoder.Encoders, *jsonenc.Encoder) {
	poolEncsOnce.Do(func() {
		enc := jsonenc.NewEncoder()
		encs := encoder.NewEncoders(enc, enc)

		if err := launch.LoadHinters(encs); err != nil {
			poolEncsErr = err

			return
		}

		if err := encs.AddDetail(encoder.DecodeDetail{Hint: isaac.DummyOperationFactHint, Instance: isaac.DummyOperationFact{}}); err != nil {
			poolEncsErr = err

			return
		}

		if err := encs.AddDetail(encoder.DecodeDetail{Hint: isaac.DummyOperationHint, Instance: isaac.DummyOperation{}}); err != nil {
			poolEncsErr = err

			return
		}

		poolEncs, poolEnc = encs, enc
	})

	if poolEncsErr != nil {
		t.Fatalf("encoders: %v", poolEncsErr)
	}

	return poolEncs, poolEnc
}

var (
	poolKeysOnce sync.Once
	poolKeys     []base.Privatekey
	poolNodes    []base.Address
)

// poolFixtures returns 8 deterministic private keys and 8 node addresses (node i is signed for by key i).
func poolFixtures(t testing.TB) ([]base.Privatekey, []base.Address) {
	poolKeysOnce.Do(func() {
		for i := 0; i < 8; i++ {
			k, err := base.NewMPrivatekeyFromSeed(fmt.Sprintf("verif-pool-fixture-key-seed-%032d", i))
			if err != nil {
				panic(err)
			}

			poolKeys = append(poolKeys, k)
			poolNodes = append(poolNodes, base.NewStringAddress(fmt.Sprintf("node%d", i)))
		}
	})

	return poolKeys, poolNodes
}

func newTempPool(t ev.TB, st *leveldbstorage.Storage, encs *encoder.Encoders, enc encoder.Encoder, cache int) *isaacdatabase.TempPool {
	p, err := isaacdatabase.NewTempPool(st, encs, enc, cache)
	if err != nil {
		t.Fatalf("NewTempPool: %v", err)
	}

	return p
}

// noPanic runs f; a panic inside mitum code is reported as a violation with signature sig (unless the panic is
// rapid unwinding after t.Fatalf, recognised by its type so that re-executions fail identically). It returns true when f panicked.
func noPanic(t ev.TB, r *ev.Rec, sig, what string, f func()) (panicked bool) {
	defer func() {
		if x := recover(); x != nil {
			if isRapidUnwind(x) {
				panic(x)
			}

			panicked = true

			r.Violation(t, sig, "%s panicked: %v", what, x)
		}
	}()

	f()

	return false
}

// isRapidUnwind reports whether a recovered value is rapid's own unwinding after t.Fatalf (a harness failure that
// happened inside a callback running below mitum code); such a panic must travel on, it is not a panic of mitum.
func isRapidUnwind(x any) bool {
	return strings.HasPrefix(fmt.Sprintf("%T", x), "rapid.")
}
