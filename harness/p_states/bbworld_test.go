package p_states

import (
	"fmt"
	"runtime"
	"sort"
	"strings"
	"sync"
	"sync/atomic"
	"time"

	"github.com/spikeekips/mitum/base"
	"github.com/spikeekips/mitum/isaac"
	isaacstates "github.com/spikeekips/mitum/isaac/states"
	"github.com/spikeekips/mitum/util"
	"pgregory.net/rapid"
	"verif/internal/gen"
)

// ---- a ballotbox world: one suffrage of n nodes for every height, real signed IsValid ballots

type bbKey struct {
	Point string // stage point string
	SC    bool
}

type bbBallotDesc struct {
	Height  int64
	Round   uint64
	Kind    string // init, initX (conflicting fact), initExpel, sc, scX (conflicting suffrage-confirm fact), accept, acceptX, acceptExpel, initY/acceptY (third fact)
	Node    int    // signer index; n = foreign node
	ExpelBy string // full, one, foreign, expired (who signed the expel operation carried by the ballot)
	Key     string // "", "wrongkey": node address signed with the foreign node's key
}

func (d bbBallotDesc) String() string {
	return fmt.Sprintf("%s@(%d,%d) by n%02d%s%s", d.Kind, d.Height, d.Round, d.Node,
		map[bool]string{true: " expel=" + d.ExpelBy, false: ""}[strings.Contains(d.Kind, "Expel") || strings.HasPrefix(d.Kind, "sc")],
		map[bool]string{true: " WRONGKEY", false: ""}[d.Key != ""])
}

type bbWorld struct {
	n        int
	th       base.Threshold
	locals   []base.LocalNode
	suf      isaac.Suffrage
	localIdx int
	box      *isaacstates.Ballotbox
	sufFound atomic.Bool

	mu        sync.Mutex
	offered   map[bbKey]map[string]base.BallotSignFact // every sign fact handed to Vote: key = hex of HashBytes
	accepted  map[bbKey]map[string]base.BallotSignFact // Vote returned true: by node address
	embedded  map[string]base.Voteproof                // voteproof ID -> voteproof embedded in an offered ballot
	points    map[string]bool                          // stage points voted on
	emitted   []base.Voteproof
	history   []string
	hadExpel  bool
	hadConfl  bool
	hadConc   bool
	baselineG int
	kinds     []string

	scDelivered map[int64]int // per height: suffrage-confirm ballots handed to Vote so far (added for C04)
}

func newBBWorld(n int, th base.Threshold, localIdx int) *bbWorld {
	w := &bbWorld{
		n: n, th: th, locals: gen.Locals(n + 1), localIdx: localIdx,
		offered: map[bbKey]map[string]base.BallotSignFact{}, accepted: map[bbKey]map[string]base.BallotSignFact{},
		embedded: map[string]base.Voteproof{}, points: map[string]bool{},
	}
	w.suf = gen.Suffrage(w.locals[:n])
	w.kinds = bbKindsC04
	w.sufFound.Store(true)

	w.box = isaacstates.NewBallotbox(w.locals[localIdx].Address(),
		func() base.Threshold { return w.th },
		func(base.Height) (base.Suffrage, bool, error) {
			if !w.sufFound.Load() {
				return nil, false, nil
			}

			return w.suf, true, nil
		})
	w.box.SetCountAfter(time.Millisecond)

	return w
}

func bbBlock(h int64) util.Hash { return gen.H(fmt.Sprintf("block-%d", h)) }

func bbPoint(h int64, r uint64) base.Point { return base.RawPoint(h, r) }

// the canonical expel set at a height: the last suffrage node, never the box's local node
func (w *bbWorld) expelTarget() int {
	if w.localIdx == w.n-1 {
		return w.n - 2
	}

	return w.n - 1
}

func (w *bbWorld) live() []base.LocalNode {
	var ls []base.LocalNode

	for i := 0; i < w.n; i++ {
		if i != w.expelTarget() {
			ls = append(ls, w.locals[i])
		}
	}

	return ls
}

func (w *bbWorld) expels(h int64, by string) []base.SuffrageExpelOperation {
	target := w.locals[w.expelTarget()].Address()

	var signers []base.LocalNode

	switch by {
	case "one":
		signers = w.live()[:1]
	case "foreign":
		signers = append(append([]base.LocalNode(nil), w.live()...), w.locals[w.n])
	default:
		signers = w.live()
	}

	if by == "expired" {
		// valid operation, valid in a ballot (start <= ballot height), but no longer valid at the ballot's height
		return []base.SuffrageExpelOperation{gen.Expel(target, base.Height(h)-2, base.Height(h)-1, signers)}
	}

	return []base.SuffrageExpelOperation{gen.Expel(target, base.Height(h), base.Height(h)+1, signers)}
}

func (w *bbWorld) initFact(h int64, r uint64, v int, expelfacts []util.Hash) isaac.INITBallotFact {
	return isaac.NewINITBallotFact(bbPoint(h, r), bbBlock(h-1), gen.H(fmt.Sprintf("prop-%d-%d-%d", h, r, v)), expelfacts)
}

func (w *bbWorld) acceptFact(h int64, r uint64, v int, expelfacts []util.Hash) isaac.ACCEPTBallotFact {
	nb := bbBlock(h)
	if v != 0 {
		nb = gen.H(fmt.Sprintf("block-%d-x%d", h, v))
	}

	return isaac.NewACCEPTBallotFact(bbPoint(h, r), gen.H(fmt.Sprintf("prop-%d-%d-0", h, r)), nb, expelfacts)
}

// voteproofs embedded in ballots (all valid by themselves and with the suffrage)
func (w *bbWorld) acceptVP(h int64) base.ACCEPTVoteproof {
	return gen.FullACCEPTVoteproof(w.acceptFact(h, 0, 0, nil), w.locals[:w.n], w.th, nil)
}

func (w *bbWorld) drawACCEPTVP(h int64, r uint64) base.ACCEPTVoteproof {
	sfs := make([]base.BallotSignFact, w.n)
	for i := 0; i < w.n; i++ {
		sfs[i] = gen.SignACCEPT(w.acceptFact(h, r, 100+i, nil), w.locals[i])
	}

	return gen.ACCEPTVoteproof(bbPoint(h, r), nil, sfs, w.th, nil)
}

// drawINITVP: the INIT stage of (h,r) ended in a draw (every node another proposal); what a ballot of the next round may carry
// instead of the ACCEPT draw voteproof (base.IsValidINITBallot allows both). Added for C04.
func (w *bbWorld) drawINITVP(h int64, r uint64) base.INITVoteproof {
	sfs := make([]base.BallotSignFact, w.n)
	for i := 0; i < w.n; i++ {
		sfs[i] = gen.SignINIT(w.initFact(h, r, 100+i, nil), w.locals[i])
	}

	return gen.INITVoteproof(bbPoint(h, r), nil, sfs, w.th, nil)
}

func (w *bbWorld) initVP(h int64, r uint64) base.INITVoteproof {
	return gen.FullINITVoteproof(w.initFact(h, r, 0, nil), w.locals[:w.n], w.th, nil)
}

func (w *bbWorld) initExpelVP(h int64, r uint64) base.INITVoteproof { return w.initExpelVPv(h, r, 0) }

// initExpelVPv: v=1 is a second, different majority (another proposal) for the same point - what a conflicting suffrage-confirm
// ballot refers to.
func (w *bbWorld) initExpelVPv(h int64, r uint64, v int) base.INITVoteproof {
	ex := w.expels(h, "full")

	return gen.FullINITVoteproof(w.initFact(h, r, v, gen.ExpelFactHashes(ex)), w.live(), w.th, ex)
}

// build makes the ballot described by d; ok=false when the descriptor is not constructible for this world.
func (w *bbWorld) build(d bbBallotDesc) (bl base.Ballot, ok bool) {
	node := w.locals[d.Node]
	signer := node
	wrongkey := d.Key == "wrongkey"

	if wrongkey {
		signer = w.locals[w.n]
	}

	needExpel := strings.Contains(d.Kind, "Expel") || strings.HasPrefix(d.Kind, "sc")
	if needExpel && w.n < 3 {
		return nil, false
	}

	if d.Round > 0 && w.n < 2 {
		return nil, false
	}

	signINIT := func(f base.INITBallotFact) isaac.INITBallotSignFact {
		if !wrongkey {
			return gen.SignINIT(f, node)
		}

		sf := isaac.NewINITBallotSignFact(f)
		if err := sf.NodeSign(signer.Privatekey(), gen.NetworkID, node.Address()); err != nil {
			panic(err)
		}

		return sf
	}

	signACCEPT := func(f base.ACCEPTBallotFact) isaac.ACCEPTBallotSignFact {
		if !wrongkey {
			return gen.SignACCEPT(f, node)
		}

		sf := isaac.NewACCEPTBallotSignFact(f)
		if err := sf.NodeSign(signer.Privatekey(), gen.NetworkID, node.Address()); err != nil {
			panic(err)
		}

		return sf
	}

	var prevVP base.Voteproof
	if d.Round == 0 {
		prevVP = w.acceptVP(d.Height - 1)
	} else {
		prevVP = w.drawACCEPTVP(d.Height, d.Round-1)
	}

	switch d.Kind {
	case "init", "initX":
		v := 0
		if d.Kind == "initX" {
			v = 1
		}

		return isaac.NewINITBallot(prevVP, signINIT(w.initFact(d.Height, d.Round, v, nil)), nil), true
	case "initExpel":
		ex := w.expels(d.Height, d.ExpelBy)

		return isaac.NewINITBallot(prevVP, signINIT(w.initFact(d.Height, d.Round, 0, gen.ExpelFactHashes(ex))), ex), true
	case "sc", "scX":
		v := 0
		if d.Kind == "scX" {
			v = 1
		}

		vp := w.initExpelVPv(d.Height, d.Round, v)
		ex := w.expels(d.Height, "full")
		f := isaac.NewSuffrageConfirmBallotFact(bbPoint(d.Height, d.Round), bbBlock(d.Height-1),
			gen.H(fmt.Sprintf("prop-%d-%d-%d", d.Height, d.Round, v)), gen.ExpelFactHashes(ex))

		return isaac.NewINITBallot(vp, signINIT(f), nil), true
	case "accept", "acceptX":
		v := 0
		if d.Kind == "acceptX" {
			v = 1
		}

		return isaac.NewACCEPTBallot(w.initVP(d.Height, d.Round), signACCEPT(w.acceptFact(d.Height, d.Round, v, nil)), nil), true
	case "acceptExpel":
		ex := w.expels(d.Height, "full")

		return isaac.NewACCEPTBallot(w.initExpelVP(d.Height, d.Round), signACCEPT(w.acceptFact(d.Height, d.Round, 0, gen.ExpelFactHashes(ex))), ex), true
	case "initI", "initXI", "initYI", "initExpelI":
		// the facts of init/initX/initY/initExpel in a ballot of a later round that carries the previous round's INIT draw
		// voteproof instead of its ACCEPT draw voteproof; added for C04, not in any kind list
		if d.Round == 0 || w.n < 2 {
			return nil, false
		}

		ivp := w.drawINITVP(d.Height, d.Round-1)

		if d.Kind == "initExpelI" {
			ex := w.expels(d.Height, d.ExpelBy)

			return isaac.NewINITBallot(ivp, signINIT(w.initFact(d.Height, d.Round, 0, gen.ExpelFactHashes(ex))), ex), true
		}

		v := map[string]int{"initI": 0, "initXI": 1, "initYI": 2}[d.Kind]

		return isaac.NewINITBallot(ivp, signINIT(w.initFact(d.Height, d.Round, v, nil)), nil), true
	case "initY": // a third fact for the point (three-way splits); added for C04, not in any kind list
		return isaac.NewINITBallot(prevVP, signINIT(w.initFact(d.Height, d.Round, 2, nil)), nil), true
	case "acceptY":
		return isaac.NewACCEPTBallot(w.initVP(d.Height, d.Round), signACCEPT(w.acceptFact(d.Height, d.Round, 2, nil)), nil), true
	}

	return nil, false
}

func bbIsSC(f base.Fact) bool {
	bf, ok := f.(base.BallotFact)

	return ok && isaac.IsSuffrageConfirmBallotFact(bf)
}

func bbSFKey(sf base.BallotSignFact) string { return fmt.Sprintf("%x", sf.HashBytes()) }

type bbCached struct {
	bl    base.Ballot
	valid bool
}

var (
	bbCacheMu sync.Mutex
	bbCache   = map[string]bbCached{} // ballots are immutable values: share them (and their IsValid verdict) across cases
)

func (w *bbWorld) cachedBallot(d bbBallotDesc) (base.Ballot, bool) {
	k := fmt.Sprintf("%d|%v|%d|%+v", w.n, w.th, w.expelTarget(), d)

	bbCacheMu.Lock()
	c, found := bbCache[k]
	bbCacheMu.Unlock()

	if !found {
		bl, ok := w.build(d)
		if ok {
			// launch drops invalid ballots before the ballotbox: they are not part of the input domain
			c = bbCached{bl: bl, valid: bl.IsValid(gen.NetworkID) == nil}
		}

		bbCacheMu.Lock()
		bbCache[k] = c
		bbCacheMu.Unlock()
	}

	return c.bl, c.valid
}

// vote hands the ballot to the box exactly as launch does (IsValid first) and records it.
func (w *bbWorld) vote(d bbBallotDesc) (built bool, voted bool, err error) {
	bl, ok := w.cachedBallot(d)
	if !ok {
		return false, false, nil
	}

	sf := bl.SignFact()
	k := bbKey{Point: bl.Point().String(), SC: bbIsSC(sf.Fact())}

	w.mu.Lock()
	if w.offered[k] == nil {
		w.offered[k] = map[string]base.BallotSignFact{}
	}

	w.offered[k][bbSFKey(sf)] = sf
	w.points[bl.Point().String()] = true

	if vp := bl.Voteproof(); vp != nil {
		w.embedded[vp.ID()] = vp
	}

	w.history = append(w.history, "vote "+d.String())

	if k.SC {
		if w.scDelivered == nil {
			w.scDelivered = map[int64]int{}
		}

		w.scDelivered[d.Height]++
	}

	if strings.Contains(d.Kind, "Expel") || strings.HasPrefix(d.Kind, "sc") {
		w.hadExpel = true
	}

	if strings.HasSuffix(d.Kind, "X") {
		w.hadConfl = true
	}
	w.mu.Unlock()

	voted, err = w.box.Vote(bl)

	if voted {
		w.mu.Lock()
		if w.accepted[k] == nil {
			w.accepted[k] = map[string]base.BallotSignFact{}
		}

		w.accepted[k][sf.Node().String()] = sf
		w.mu.Unlock()
	}

	return true, voted, err
}

// settle waits until the goroutines the box started (deferred counting, new-ballot callback) are gone. It only
// reduces schedule noise; no verdict depends on it.
func (w *bbWorld) settle() {
	deadline := time.Now().Add(2 * time.Second)

	for i := 0; ; i++ {
		if runtime.NumGoroutine() <= w.baselineG {
			return
		}

		if time.Now().After(deadline) {
			return
		}

		if i < 100 {
			runtime.Gosched()
		} else {
			time.Sleep(50 * time.Microsecond)
		}
	}
}

func (w *bbWorld) drain() []base.Voteproof {
	var vps []base.Voteproof

	for {
		select {
		case vp := <-w.box.Voteproof():
			vps = append(vps, vp)
		default:
			return vps
		}
	}
}

var (
	bbKindsC04 = []string{"init", "init", "init", "initX", "initExpel", "initExpel", "sc", "sc", "scX", "accept", "accept", "acceptX", "acceptExpel"}
	bbKindsC05 = []string{"init", "init", "sc", "sc", "sc", "scX", "initExpel", "accept", "accept", "acceptExpel", "initX"}
)

func genBBDesc(w *bbWorld) *rapid.Generator[bbBallotDesc] {
	return rapid.Custom(func(t *rapid.T) bbBallotDesc {
		d := bbBallotDesc{
			Height:  int64(rapid.IntRange(33, 35).Draw(t, "height")),
			Round:   uint64(rapid.SampledFrom([]int{0, 0, 0, 1, 2}).Draw(t, "round")),
			Kind:    rapid.SampledFrom(w.kinds).Draw(t, "kind"),
			ExpelBy: rapid.SampledFrom([]string{"full", "full", "full", "one", "foreign", "expired"}).Draw(t, "expelBy"),
		}

		// mostly suffrage members; sometimes the foreign node (index n)
		d.Node = rapid.IntRange(0, w.n).Draw(t, "node")
		if rapid.IntRange(0, 19).Draw(t, "wrongkey") == 0 && d.Node < w.n {
			d.Key = "wrongkey"
		}

		return d
	})
}

func bbSortedKeys[M ~map[string]V, V any](m M) []string {
	ks := make([]string, 0, len(m))
	for k := range m {
		ks = append(ks, k)
	}

	sort.Strings(ks)

	return ks
}
