package p_states

import (
	"bytes"
	"context"
	"fmt"
	"runtime"
	"strings"
	"sync"
	"testing"
	"time"

	"github.com/spikeekips/mitum/base"
	"github.com/spikeekips/mitum/isaac"
	"pgregory.net/rapid"
	"verif/internal/ev"
	"verif/internal/gen"
)

// exact reference tally (C01's model): counts per fact over a quorum of n at threshold t10/1000
func bbTally(n int, t10 int, counts map[string]int) (base.VoteResult, string) {
	req := (n*t10 + 999) / 1000
	if req > n {
		req = n
	}

	total, best, bestk := 0, 0, ""

	for k, c := range counts {
		total += c

		if c > best || (c == best && k < bestk) {
			best, bestk = c, k
		}
	}

	if best >= req {
		return base.VoteResultMajority, bestk
	}

	missing := n - total
	if missing < 0 {
		missing = 0
	}

	if best+missing < req {
		return base.VoteResultDraw, ""
	}

	return base.VoteResultNotYet, ""
}

func bbT10(t base.Threshold) int { return int(t.Float64()*10 + 0.5) }

// bbCheckEmitted is the C04 oracle for one voteproof received from the ballotbox.
func bbCheckEmitted(t ev.TB, r *ev.Rec, w *bbWorld, vp base.Voteproof) (counted bool) {
	hist := func() string { return strings.Join(w.history, "\n    ") }

	w.mu.Lock()
	_, passthrough := w.embedded[vp.ID()]
	w.mu.Unlock()

	valid := vp.IsValid(gen.NetworkID)
	withSuf := isaac.IsValidVoteproofWithSuffrage(vp, w.suf)

	if passthrough {
		if valid != nil || withSuf != nil {
			r.Violation(t, "passthrough-rejected-by-validation", "a voteproof taken from a ballot was emitted but full validation rejects it: %v / %v\n  vp=%s\n  history:\n    %s",
				valid, withSuf, bbDescVP(vp), hist())
		}

		return false
	}

	// (1) stage point was voted on
	w.mu.Lock()
	votedPoint := w.points[vp.Point().String()]
	w.mu.Unlock()

	if !votedPoint {
		r.Violation(t, "emitted-for-unvoted-point", "voteproof for %v although no ballot for that stage point was voted\n  vp=%s\n  history:\n    %s", vp.Point(), bbDescVP(vp), hist())
	}

	// (2) sign facts: for this stage point, byte-identical to offered ones, distinct suffrage nodes
	sfs := vp.SignFacts()
	seen := map[string]bool{}
	counts := map[string]int{}
	isSC := -1

	for _, sf := range sfs {
		f := sf.Fact().(base.BallotFact) //nolint:forcetypeassert //...

		if !f.Point().Equal(vp.Point()) {
			r.Violation(t, "signfact-of-other-point", "voteproof for %v contains a sign fact for %v\n  vp=%s\n  history:\n    %s", vp.Point(), f.Point(), bbDescVP(vp), hist())
		}

		sc := 0
		if bbIsSC(f) {
			sc = 1
		}

		if isSC >= 0 && isSC != sc {
			r.Violation(t, "mixed-sc-signfacts", "voteproof for %v mixes suffrage-confirm and ordinary sign facts\n  vp=%s\n  history:\n    %s", vp.Point(), bbDescVP(vp), hist())
		}

		isSC = sc

		w.mu.Lock()
		_, offered := w.offered[bbKey{Point: vp.Point().String(), SC: sc == 1}][bbSFKey(sf)]
		w.mu.Unlock()

		if !offered {
			r.Violation(t, "signfact-never-voted", "voteproof for %v contains a sign fact of %s that was never passed to Vote for that stage point\n  vp=%s\n  history:\n    %s",
				vp.Point(), sf.Node(), bbDescVP(vp), hist())
		}

		if seen[sf.Node().String()] {
			r.Violation(t, "duplicate-signer", "voteproof for %v contains two sign facts of %s\n  vp=%s\n  history:\n    %s", vp.Point(), sf.Node(), bbDescVP(vp), hist())
		}

		seen[sf.Node().String()] = true

		if !w.suf.ExistsPublickey(sf.Node(), sf.Signer()) {
			sig := "signer-not-in-suffrage"
			if w.suf.Exists(sf.Node()) {
				sig = "signer-wrong-publickey"
			}

			r.Violation(t, sig, "voteproof for %v contains a sign fact of %s signed with a key that is not that suffrage node's key\n  vp=%s\n  history:\n    %s",
				vp.Point(), sf.Node(), bbDescVP(vp), hist())
		}

		counts[f.Hash().String()]++
	}

	// (3) same validation other nodes apply
	if valid != nil {
		r.Violation(t, "emitted-invalid", "emitted voteproof fails IsValid: %v\n  vp=%s\n  history:\n    %s", valid, bbDescVP(vp), hist())
	}

	var nexpels int
	if he, ok := vp.(base.HasExpels); ok {
		nexpels = len(he.Expels())
	}

	if withSuf != nil {
		sig := "emitted-rejected-by-validation"
		if nexpels > 0 {
			sig = "expel-emitted-rejected-by-validation"
		}

		r.Violation(t, sig, "n=%d t=%v: emitted voteproof is rejected by isaac.IsValidVoteproofWithSuffrage: %v\n  vp=%s\n  history:\n    %s",
			w.n, w.th, withSuf, bbDescVP(vp), hist())
	}

	// (4) fresh recount
	quorum, t10 := w.n, bbT10(vp.Threshold())
	if nexpels > 0 {
		quorum, t10 = w.n-nexpels, 1000
	}

	res, majk := bbTally(quorum, t10, counts)

	switch {
	case res != vp.Result():
		sig := "recount-result-mismatch"
		if nexpels > 0 {
			sig = "expel-recount-result-mismatch"
		}

		r.Violation(t, sig, "n=%d quorum=%d t=%d/1000: voteproof says %v, a fresh recount of its %d sign facts %v says %v\n  vp=%s\n  history:\n    %s",
			w.n, quorum, t10, vp.Result(), len(sfs), counts, res, bbDescVP(vp), hist())
	case res == base.VoteResultMajority && (vp.Majority() == nil || vp.Majority().Hash().String() != majk):
		r.Violation(t, "recount-majority-mismatch", "voteproof majority differs from the recount majority %s\n  vp=%s\n  history:\n    %s", majk, bbDescVP(vp), hist())
	}

	return true
}

func bbDescVP(vp base.Voteproof) string {
	var ss []string
	for _, sf := range vp.SignFacts() {
		ss = append(ss, fmt.Sprintf("%s:%s", sf.Node(), sf.Fact().Hash().String()[:6]))
	}

	maj := "-"
	if vp.Majority() != nil {
		maj = vp.Majority().Hash().String()[:6]
	}

	nex := 0
	if he, ok := vp.(base.HasExpels); ok {
		nex = len(he.Expels())
	}

	return fmt.Sprintf("%T %v result=%v majority=%s threshold=%v expels=%d signfacts=[%s]", vp, vp.Point(), vp.Result(), maj, vp.Threshold(), nex, strings.Join(ss, " "))
}

type bbMachineOpts struct {
	maxN       int
	steps      int
	checkC05   bool
	concurrent bool
	rounds     bool // adds the "severalRounds" action (a height that needs several rounds, with stragglers); C04 only
	held       bool // adds the "heldThenMoved" action (a held draw, the last point moves on, then the box's periodic count of held records runs); C04 only
}

const bbSeveralRoundsMark = "several-round height"

// bbMachine is the stateful generator shared by C04 and C05.
func bbMachine(rt *rapid.T, r *ev.Rec, o bbMachineOpts, c05 *c05State) (w *bbWorld, counted int) {
	minN := 1
	if o.checkC05 {
		minN = 3 // suffrage-confirm ballots need an expel voteproof, which needs >= 3 nodes
	}

	n := rapid.IntRange(minN, o.maxN).Draw(rt, "n")
	th := base.Threshold(rapid.SampledFrom([]float64{67, 67, 67, 60, 80, 100}).Draw(rt, "threshold"))
	localIdx := rapid.SampledFrom([]int{0, 0, n}).Draw(rt, "localIdx") // member or not a member

	if localIdx > n {
		localIdx = n
	}

	w = newBBWorld(n, th, localIdx)
	w.baselineG = runtime.NumGoroutine()

	if o.checkC05 {
		w.kinds = bbKindsC05
	}

	if c05 != nil {
		c05.attach(w)
		defer c05.detach()
	}

	// stage points for which the box was observed (at a moment without any box goroutine in flight and with the voteproof
	// channel drained) to refuse a fresh valid ballot of a suffrage node that had not voted there, as old, while its last
	// point was a majority and it had no suffrage-confirm record of that height. The position of the box moves back only to
	// take a suffrage-confirm result of the same height (property C06), so the observation holds as long as no suffrage-confirm
	// ballot of that height is handed to Vote and the last point of that height is not set from outside; it is dropped then.
	stale := &bbStale{m: map[bbKey]bbStaleObs{}}

	judge := func(vps []base.Voteproof) {
		for _, vp := range vps {
			w.emitted = append(w.emitted, vp)

			if !bbCheckEmitted(rt, r, w, vp) {
				continue
			}

			counted++

			// (1b) handed out after the box had stopped voting on its stage point (judged by event order)
			if obs, found := stale.get(w, bbKey{Point: vp.Point().String(), SC: bbVPIsSC(vp)}); found {
				r.Violation(rt, "emitted-for-point-no-longer-voted", "n=%d t=%v: voteproof for %v was handed out after the box had stopped voting on that stage point (%s)\n  vp=%s\n  last point now=%s\n  history:\n    %s",
					w.n, w.th, vp.Point(), obs.msg, bbDescVP(vp), bbDescLast(w.box.LastPoint()), strings.Join(w.history, "\n    "))
			}
		}
	}

	check := func() {
		w.settle()

		judge(w.drain())

		if c05 != nil {
			c05.check(rt, r, w)
		}
	}

	actions := map[string]func(*rapid.T){
		"vote": func(t *rapid.T) {
			d := genBBDesc(w).Draw(t, "ballot")

			if _, _, err := w.vote(d); err != nil {
				t.Fatalf("Vote error: %v", err)
			}
		},
		"voteRun": func(t *rapid.T) {
			// the same ballot kind from several nodes in a row: the common way a point reaches its threshold
			d := genBBDesc(w).Draw(t, "ballot")
			d.Key = ""
			lo := (w.n + 1) / 2
			if o.checkC05 {
				lo = w.n - 1 // runs that reach a result, so that cleanup cycles happen
			}

			k := rapid.IntRange(lo, w.n).Draw(t, "k")
			start := rapid.IntRange(0, w.n-1).Draw(t, "start")

			for i := 0; i < k; i++ {
				d.Node = (start + i) % w.n

				if _, _, err := w.vote(d); err != nil {
					t.Fatalf("Vote error: %v", err)
				}
			}
		},
		"splitRun": func(t *rapid.T) {
			// the suffrage splits between two facts for one stage point: the way a round ends in a draw
			d := genBBDesc(w).Draw(t, "ballot")
			d.Key = ""
			stage := rapid.SampledFrom([]string{"init", "init", "accept"}).Draw(t, "splitStage")
			cut := rapid.IntRange(1, w.n).Draw(t, "cut")

			for i := 0; i < w.n; i++ {
				d.Node = i
				d.Kind = stage

				if i >= cut {
					d.Kind = stage + "X"
				}

				if _, _, err := w.vote(d); err != nil {
					t.Fatalf("Vote error: %v", err)
				}
			}
		},
		"expelRun": func(t *rapid.T) {
			// every remaining node votes the same expel-carrying ballot: the way an expel voteproof comes about. The expel
			// operation may be insufficiently signed, signed by an outsider or expired: then no expel voteproof may be emitted.
			if w.n < 3 {
				t.Skip("expels need >= 3 nodes")
			}

			d := genBBDesc(w).Draw(t, "ballot")
			d.Key = ""
			d.Kind = rapid.SampledFrom([]string{"initExpel", "initExpel", "acceptExpel"}).Draw(t, "expelKind")
			skip := rapid.IntRange(-1, w.n-1).Draw(t, "skipNode") // -1: nobody is missing

			for i := 0; i < w.n; i++ {
				if i == skip {
					continue
				}

				d.Node = i

				if _, _, err := w.vote(d); err != nil {
					t.Fatalf("Vote error: %v", err)
				}
			}
		},
		"count": func(t *rapid.T) {
			w.history = append(w.history, "count")
			w.box.Count()
		},
		"setLastPoint": func(t *rapid.T) {
			maxH := 35
			if o.checkC05 {
				maxH = 33 // leave most stage points votable
			}

			h := int64(rapid.IntRange(32, maxH).Draw(t, "height"))
			rd := uint64(rapid.IntRange(0, 1).Draw(t, "round"))

			var vp base.Voteproof

			switch rapid.IntRange(0, 2).Draw(t, "which") {
			case 0:
				vp = w.acceptVP(h)
			case 1:
				vp = w.initVP(h, rd)
			default:
				if w.n < 2 {
					t.Skip("no draw voteproof for n=1")
				}

				vp = w.drawACCEPTVP(h, rd)
			}

			stale.dropHeight(h)

			ok := w.box.SetLastPointFromVoteproof(vp)
			w.history = append(w.history, fmt.Sprintf("setLastPoint %v majority=%v -> %v", vp.Point(), vp.Result() == base.VoteResultMajority, ok))
		},
		"toggleSuffrage": func(t *rapid.T) {
			v := !w.sufFound.Load()
			w.sufFound.Store(v)
			w.history = append(w.history, fmt.Sprintf("suffrage lookup found=%v", v))
		},
		"": func(t *rapid.T) { check() },
	}

	if o.concurrent {
		actions["concurrent"] = func(t *rapid.T) {
			k := rapid.IntRange(2, 4).Draw(t, "goroutines")
			lists := make([][]bbBallotDesc, k)

			for i := range lists {
				lists[i] = rapid.SliceOfN(genBBDesc(w), 1, 5).Draw(t, "list")
			}

			w.mu.Lock()
			w.hadConc = true
			w.history = append(w.history, fmt.Sprintf("concurrent phase: %v", lists))
			w.mu.Unlock()

			var wg sync.WaitGroup

			for i := range lists {
				wg.Add(1)

				go func(l []bbBallotDesc) {
					defer wg.Done()

					for _, d := range l {
						_, _, _ = w.vote(d)
					}
				}(lists[i])
			}

			wg.Wait()
		}
	}

	if o.held {
		actions["heldThenMoved"] = func(t *rapid.T) {
			if w.n < 3 {
				t.Skip("expels need >= 3 nodes")
			}

			bbHeldThenMoved(t, w, check, judge, stale)
		}

		// sometimes the history opens with it: the box is fresh then and every stage point is still votable
		if w.n >= 3 && rapid.IntRange(0, 2).Draw(rt, "openWithHeldThenMoved") == 0 {
			bbHeldThenMoved(rt, w, check, judge, stale)
		}
	}

	if o.rounds {
		actions["severalRounds"] = func(t *rapid.T) {
			if w.n < 3 {
				t.Skip("suffrage-confirm ballots need >= 3 nodes")
			}

			bbSeveralRounds(t, w, check)
		}

		// sometimes the history opens with it: the box is fresh then and every stage point of the height is still votable
		if w.n >= 3 && rapid.Bool().Draw(rt, "openWithSeveralRounds") {
			bbSeveralRounds(rt, w, check)
		}
	}

	rt.Repeat(actions)

	// final: make sure everything voted was counted once more
	w.sufFound.Store(true)
	w.box.Count()
	check()

	return w, counted
}

// bbSeveralRounds plays a height that needs several rounds, as the consensus states drive it when nodes disagree or lag: a
// suffrage-confirm round that (mostly) does not finish, later stage points of the same height whose votes split between two
// or three facts (draws, sometimes majorities), the first votes for a still later stage point, stragglers (late ballots for
// earlier points of the height), then the remaining votes for the later stage point. Everything is drawn: height, rounds,
// the walk over stage points, the splits, voters, kinds of the late ballots, quiet moments and other actions in between.
func bbSeveralRounds(t *rapid.T, w *bbWorld, check func()) {
	h := int64(rapid.IntRange(33, 35).Draw(t, "roundsHeight"))
	r0 := uint64(rapid.IntRange(0, 1).Draw(t, "firstRound"))

	w.mu.Lock()
	w.history = append(w.history, fmt.Sprintf("%s %d from round %d", bbSeveralRoundsMark, h, r0))
	w.mu.Unlock()

	vote := func(kind string, hh int64, rr uint64, node int) {
		if _, _, err := w.vote(bbBallotDesc{Height: hh, Round: rr, Kind: kind, Node: node, ExpelBy: "full"}); err != nil {
			t.Fatalf("Vote error: %v", err)
		}
	}

	// between two bursts of ballots: mostly a quiet moment (the box finishes its deferred counting), sometimes another action
	between := func() {
		switch rapid.IntRange(0, 11).Draw(t, "between") {
		case 0:
			w.history = append(w.history, "count")
			w.box.Count()
		case 1:
			if _, _, err := w.vote(genBBDesc(w).Draw(t, "ballot")); err != nil {
				t.Fatalf("Vote error: %v", err)
			}
		case 2:
			check()
		case 3, 4: // the next burst follows at once
		default:
			w.settle()
		}
	}

	type stage struct {
		r      uint64
		accept bool
	}

	kindOf := func(s stage) string {
		if s.accept {
			return "accept"
		}

		return "init"
	}

	next := func(s stage, toAccept bool) stage {
		if toAccept && !s.accept {
			return stage{r: s.r, accept: true}
		}

		return stage{r: s.r + 1}
	}

	suffix := []string{"", "X", "Y"}

	// (1) suffrage-confirm ballots for (h,r0) from a few nodes
	k1 := rapid.SampledFrom([]int{1, 1, 2, w.n - 1}).Draw(t, "scVoters")
	s1 := rapid.IntRange(0, w.n-1).Draw(t, "scStart")
	sckind := rapid.SampledFrom([]string{"sc", "sc", "sc", "scX"}).Draw(t, "scKind")

	for i := 0; i < k1; i++ {
		vote(sckind, h, r0, (s1+i)%w.n)
	}

	between()

	// (2) the height goes on: later stage points, the suffrage splits between two or three facts at each of them
	cur := stage{r: r0}
	m := rapid.SampledFrom([]int{1, 2, 2, 3, 3}).Draw(t, "laterPoints")

	for j := 0; j < m; j++ {
		cur = next(cur, rapid.IntRange(0, 3).Draw(t, "toAccept") == 0)
		ways := rapid.IntRange(2, 3).Draw(t, "ways")

		cut := -1 // -1: the nodes take the facts in turn (the most even split)
		if rapid.IntRange(0, 5).Draw(t, "unevenSplit") == 0 {
			cut = rapid.IntRange(0, w.n).Draw(t, "cut")
		}

		for i := 0; i < w.n; i++ {
			fact := i % ways

			if cut >= 0 {
				fact = 0

				if i >= cut {
					fact = 1 + (i-cut)%(ways-1)
				}
			}

			vote(kindOf(cur)+suffix[fact], h, cur.r, i)

			if rapid.IntRange(0, 7).Draw(t, "pause") == 0 {
				w.settle()
			}
		}

		between()
	}

	// (3) first votes for a still later stage point
	qh, q := h, stage{r: cur.r + 1}

	switch rapid.IntRange(0, 9).Draw(t, "laterPoint") {
	case 0:
		qh, q = h+1, stage{}
	case 1:
		q = next(cur, true)
	}

	k3 := rapid.SampledFrom([]int{1, 1, 2, 0}).Draw(t, "firstVoters") // 0: any number
	if k3 < 1 || k3 > w.n-1 {
		k3 = rapid.IntRange(1, w.n-1).Draw(t, "firstVotersAny")
	}

	s3 := rapid.IntRange(0, w.n-1).Draw(t, "firstStart")

	for i := 0; i < k3; i++ {
		vote(kindOf(q), qh, q.r, (s3+i)%w.n)
	}

	between()

	// (4) stragglers: late ballots for earlier points of the height
	nlate := rapid.IntRange(1, 2).Draw(t, "lateBallots")

	for j := 0; j < nlate; j++ {
		kind := rapid.SampledFrom([]string{"sc", "sc", "sc", "sc", "sc", "sc", "scX", "scX", "init", "accept"}).Draw(t, "lateKind")
		rr := r0

		if rapid.IntRange(0, 4).Draw(t, "lateOtherRound") == 0 {
			rr = uint64(rapid.IntRange(int(r0), int(cur.r)).Draw(t, "lateRound"))
		}

		node := (s3 + k3 + rapid.IntRange(0, w.n-1-k3).Draw(t, "lateNode")) % w.n
		if rapid.IntRange(0, 5).Draw(t, "lateAnyNode") == 0 {
			node = rapid.IntRange(0, w.n-1).Draw(t, "lateNode")
		}

		vote(kind, h, rr, node)
	}

	between()

	// (5) the remaining votes for the later stage point
	cutq := rapid.SampledFrom([]int{w.n, w.n, w.n, w.n - 1, w.n / 2}).Draw(t, "laterCut")

	for i := k3; i < w.n; i++ {
		kind := kindOf(q)
		if i >= cutq {
			kind += "X"
		}

		vote(kind, qh, q.r, (s3+i)%w.n)
	}

	check()
}

const bbHeldMark = "held-then-moved height"

// bbStale: observations "the box does not vote on this stage point any more" (see bbMachine) and when they stop to hold.
type bbStaleObs struct {
	msg    string
	height int64
	sc     int // suffrage-confirm ballots of the height handed to Vote until the observation
}

type bbStale struct{ m map[bbKey]bbStaleObs }

func (s *bbStale) put(w *bbWorld, k bbKey, h int64, msg string) {
	w.mu.Lock()
	defer w.mu.Unlock()

	s.m[k] = bbStaleObs{msg: msg, height: h, sc: w.scDelivered[h]}
}

// get drops the observation when a suffrage-confirm ballot of its height was handed to Vote after it.
func (s *bbStale) get(w *bbWorld, k bbKey) (bbStaleObs, bool) {
	obs, found := s.m[k]
	if !found {
		return obs, false
	}

	w.mu.Lock()
	now := w.scDelivered[obs.height]
	w.mu.Unlock()

	if now != obs.sc {
		delete(s.m, k)

		return obs, false
	}

	return obs, true
}

// dropHeight: the last point of the height is about to be set from outside (SetLastPoint*).
func (s *bbStale) dropHeight(h int64) {
	for k, obs := range s.m {
		if obs.height == h {
			delete(s.m, k)
		}
	}
}

func bbVPIsSC(vp base.Voteproof) bool {
	sfs := vp.SignFacts()

	return len(sfs) > 0 && bbIsSC(sfs[0].Fact())
}

func bbDescLast(l isaac.LastPoint) string {
	if l.IsZero() {
		return "none"
	}

	return fmt.Sprintf("%v majority=%v suffrage-confirm=%v", l.StagePoint, l.IsMajority(), l.IsSuffrageConfirm())
}

// bbQuiet reports whether no goroutine started by a ballotbox (deferred counting, new-ballot callback, ticker) exists any
// more: no goroutine of the process has a frame in, or was created from, the ballotbox's package. Exact (taken from the
// goroutine dump, not from a goroutine count); waiting longer than the budget gives false (inconclusive), never a verdict.
func bbQuiet(budget time.Duration) bool {
	deadline := time.Now().Add(budget)
	buf := make([]byte, 1<<20)

	for i := 0; ; i++ {
		n := runtime.Stack(buf, true)
		if n < len(buf) && !bytes.Contains(buf[:n], []byte("mitum/isaac/states.")) {
			return true
		}

		if time.Now().After(deadline) {
			return false
		}

		if i < 50 {
			runtime.Gosched()
		} else {
			time.Sleep(100 * time.Microsecond)
		}
	}
}

// bbHeldThenMoved plays the history in which the box's periodic count of held records (the ticker of the started box)
// matters: INIT(h,r) is decided; at INIT(h,r+1) the nodes that moved to the next round all the same (their ballots carry the
// INIT or ACCEPT draw voteproof of round r) split between several facts and at least one of their
// ballots carries expels, so the result is a draw whose expels can not be counted yet and the box holds that voteproof back;
// meanwhile ACCEPT(h,r) is decided (the remaining ballots arrive, or the consensus states set the last point from the
// voteproof they got elsewhere); sometimes the next height's first INIT also ends in such a held draw; then the box runs
// for a while as a started daemon, as it does in a node, so that its ticker counts the held records. Height, round, voters,
// facts, the signing of the expel, the way the last point moves and the moments in between are drawn.
//
// Oracle clause added with it (first clause of the statement): once the box, with nothing in flight, its channel drained, its
// last point a majority and no suffrage-confirm record of the height, refuses a fresh valid ballot of a suffrage node that
// has not voted at a stage point as old, it does not vote on that point until a suffrage-confirm result of the height takes
// its position back (see bbStale for when the observation is dropped); a voteproof it counted for that point and hands out
// while the observation holds is not for a stage point it is voting on.
func bbHeldThenMoved(t *rapid.T, w *bbWorld, check func(), judge func([]base.Voteproof), stale *bbStale) {
	h := int64(rapid.IntRange(33, 35).Draw(t, "heldHeight"))
	r0 := uint64(rapid.IntRange(0, 1).Draw(t, "heldRound"))

	w.mu.Lock()
	w.history = append(w.history, fmt.Sprintf("%s %d round %d", bbHeldMark, h, r0))
	w.mu.Unlock()

	vote := func(d bbBallotDesc) bool {
		_, voted, err := w.vote(d)
		if err != nil {
			t.Fatalf("Vote error: %v", err)
		}

		return voted
	}

	quiet := func() {
		if rapid.IntRange(0, 5).Draw(t, "heldNoPause") != 0 {
			w.settle()
		}
	}

	// the nodes present at INIT(hh,rr) split between two or three facts, one of them carried by ballots with expels. Reports
	// whether every ballot was voted and the exact tally of them is a draw (then the box is expected to hold the voteproof).
	hold := func(hh int64, rr uint64, absent int) (expectHeld bool) {
		ways := rapid.IntRange(2, 3).Draw(t, "heldWays")
		kinds := rapid.SampledFrom([][]string{{"initExpel", "init", "initX"}, {"initExpel", "initX", "initY"}, {"init", "initExpel", "initX"}, {"initX", "initY", "initExpel"}}).Draw(t, "heldKinds")
		expelBy := rapid.SampledFrom([]string{"full", "full", "full", "one"}).Draw(t, "heldExpelBy")

		if ways == 2 && kinds[2] == "initExpel" {
			kinds = []string{kinds[2], kinds[0], kinds[1]}
		}

		// a ballot of a later round carries the draw voteproof of the round before: mostly that of its INIT stage (the nodes
		// that saw the INIT stage end in a draw moved on at once), sometimes that of its ACCEPT stage
		carry := ""
		if rr > 0 && rapid.IntRange(0, 4).Draw(t, "heldCarriesACCEPTDraw") != 0 {
			carry = "I"
		}

		var ds []bbBallotDesc

		for i, j := 0, 0; i < w.n; i++ {
			if i == absent {
				continue
			}

			d := bbBallotDesc{Height: hh, Round: rr, Kind: kinds[j%ways] + carry, Node: i, ExpelBy: expelBy}
			j++

			// built (signed) beforehand: the ballots of a round arrive in a burst
			if _, valid := w.cachedBallot(d); valid {
				ds = append(ds, d)
			}
		}

		counts := map[string]int{}
		expectHeld = true

		for _, d := range ds {
			bl, _ := w.cachedBallot(d)

			if !vote(d) {
				expectHeld = false
			}

			counts[bl.SignFact().Fact().Hash().String()]++
		}

		res, _ := bbTally(w.n, bbT10(w.th), counts)

		return expectHeld && res == base.VoteResultDraw
	}

	// (0) mostly the box has seen INIT(h,r0) decided before (by ballots, or the consensus states set the last point)
	switch rapid.IntRange(0, 5).Draw(t, "heldBefore") {
	case 0:
	case 1, 2:
		vp := w.initVP(h, r0)
		stale.dropHeight(h)
		ok := w.box.SetLastPointFromVoteproof(vp)
		w.history = append(w.history, fmt.Sprintf("setLastPoint %v majority=true -> %v", vp.Point(), ok))
	default:
		start := rapid.IntRange(0, w.n-1).Draw(t, "heldInitStart")

		for i := 0; i < w.n; i++ {
			vote(bbBallotDesc{Height: h, Round: r0, Kind: "init", Node: (start + i) % w.n, ExpelBy: "full"})
		}

		quiet()
	}

	// (1) INIT(h,r0+1) ends in a draw with expels that can not be counted: held. One node has not voted there yet.
	absent := rapid.IntRange(0, w.n-1).Draw(t, "heldAbsent")
	p := base.NewStagePoint(bbPoint(h, r0+1), base.StageINIT)
	pkey := bbKey{Point: p.String()}

	hold(h, r0+1, absent)
	quiet()

	// (2) ACCEPT(h,r0) is decided
	switch rapid.IntRange(0, 2).Draw(t, "heldMove") {
	case 0:
		vp := gen.FullACCEPTVoteproof(w.acceptFact(h, r0, 0, nil), w.locals[:w.n], w.th, nil)
		stale.dropHeight(h)
		ok := w.box.SetLastPointFromVoteproof(vp)
		w.history = append(w.history, fmt.Sprintf("setLastPoint %v majority=true -> %v", vp.Point(), ok))
	default:
		k := rapid.SampledFrom([]int{w.n, w.n, w.n - 1}).Draw(t, "heldAcceptVoters")
		start := rapid.IntRange(0, w.n-1).Draw(t, "heldAcceptStart")

		for i := 0; i < k; i++ {
			vote(bbBallotDesc{Height: h, Round: r0, Kind: "accept", Node: (start + i) % w.n, ExpelBy: "full"})
		}
	}

	quiet()

	// (3) sometimes the first INIT of the next height ends in a held draw, too (still voted on)
	var q base.StagePoint

	if rapid.IntRange(0, 3).Draw(t, "heldNext") != 0 {
		if hold(h+1, 0, rapid.IntRange(-1, w.n-1).Draw(t, "heldNextAbsent")) {
			q = base.NewStagePoint(bbPoint(h+1, 0), base.StageINIT)
		}
	}

	// (4) observe whether the box still votes on INIT(h,r0+1): nothing of the box in flight, everything handed out so far
	// received and judged, then a fresh valid ballot for that point from a node that has not voted there
	isquiet := bbQuiet(2 * time.Second)

	check()

	if isquiet && w.sufFound.Load() {
		probe := -1

		w.mu.Lock()
		for i := 0; i < w.n && probe < 0; i++ {
			c := (absent + i) % w.n
			probe = c

			for _, k := range []bbKey{pkey, {Point: pkey.Point, SC: true}} {
				for _, sf := range w.offered[k] {
					if sf.Node().Equal(w.locals[c].Address()) {
						probe = -1
					}
				}
			}
		}
		w.mu.Unlock()

		seen := false
		for _, vp := range w.emitted {
			seen = seen || vp.Point().Equal(p)
		}

		if probe >= 0 && !seen {
			d := bbBallotDesc{Height: h, Round: r0 + 1, Kind: "init", Node: probe, ExpelBy: "full"}

			if _, valid := w.cachedBallot(d); valid && !vote(d) {
				scRecord := false // hook H1: a suffrage-confirm record of this height could still bring the position back
				for _, rec := range w.box.VerifRecords() {
					scRecord = scRecord || (rec.ISC && rec.Point.Height() == base.Height(h))
				}

				if last := w.box.LastPoint(); !last.IsZero() && last.IsMajority() && !scRecord && !isaac.IsNewBallot(last, p, false) {
					stale.put(w, pkey, h, fmt.Sprintf("before, with no ballotbox goroutine in flight, the channel drained and no suffrage-confirm record of the height, Vote refused the ballot %v of a node that had not voted there, last point then=%s", d, bbDescLast(last)))
					w.history = append(w.history, fmt.Sprintf("observed: %v is not voted on any more (last point %s)", p, bbDescLast(last)))
				}
			}
		}
	}

	// (5) the box runs as a started daemon for a while: its ticker counts the held records. The wait ends when the held
	// voteproof of the next height arrives (the tick that counts it has gone over every held record before, in stage point
	// order), when a voteproof for an abandoned stage point arrives, or after a bound (which only ends the wait).
	w.history = append(w.history, "box runs (ticker)")
	w.box.SetInterval(time.Millisecond)

	if err := w.box.Start(context.Background()); err != nil {
		t.Fatalf("start ballotbox: %v", err)
	}

	stopped := false
	stop := func() {
		if !stopped {
			stopped = true
			_ = w.box.Stop()
		}
	}

	defer stop()

	bound := 12 * time.Millisecond
	if !q.IsZero() {
		bound = 500 * time.Millisecond
	}

	var got []base.Voteproof

	deadline := time.NewTimer(bound)
	defer deadline.Stop()

wait:
	for {
		select {
		case vp := <-w.box.Voteproof():
			got = append(got, vp)

			if _, found := stale.get(w, bbKey{Point: vp.Point().String(), SC: bbVPIsSC(vp)}); found || (!q.IsZero() && vp.Point().Equal(q)) {
				break wait
			}
		case <-deadline.C:
			break wait
		}
	}

	stop()
	w.settle()
	judge(got)
	check()
}

func TestC04(t *testing.T) {
	r := ev.Start(t, "C04")
	defer r.Finish()
	r.Rule("rapid state machine over a real Ballotbox: suffrage 1..7 (local a member or not), thresholds {60,67,80,100}, heights 33..36, rounds 0..5; " +
		"actions Vote(real IsValid ballots: honest/conflicting INIT+ACCEPT, suffrage-confirm with an INIT expel voteproof, ballots carrying expels signed fully/by one/with a foreign signer/expired, " +
		"foreign and wrong-key signers), runs of the same ballot from k nodes, split votes that end in a draw, Count, SetLastPointFromVoteproof, suffrage lookup found/not-found toggles, concurrent voters; " +
		"a composite action plays a height that needs several rounds (a suffrage-confirm round that mostly stays unfinished, a drawn walk over later stage points whose votes split between two or three facts into draws or majorities, first votes for a still later stage point, late ballots for earlier points of the height, then the remaining votes; quiet moments and other actions drawn in between; half of the histories open with it); " +
		"a composite action plays a held draw that is overtaken: INIT(h,r+1) splits into a draw with expels that can not be counted (the box holds the voteproof back), ACCEPT(h,r) is decided by ballots or SetLastPointFromVoteproof, sometimes INIT(h+1,0) ends in a held draw as well, then the box runs as a started daemon so that its ticker counts the held records (a third of the histories open with it); before the box runs, with no ballotbox goroutine in flight and the channel drained, a fresh ballot of a node that has not voted at INIT(h,r+1) probes whether that point is still voted on, and a counted voteproof handed out afterwards for a point the box refused as old is a violation; " +
		"a second phase runs long histories (60 steps, suffrage-confirm-heavy, runs that reach results) so that records are cleaned and recycled; every voteproof received on Voteproof() is judged. non-trivial = history with >=1 counted voteproof and a conflicting ballot, an expel or a concurrent phase; distinct by history")
	r.Floor(20)
	r.Assume("every ballot given to Vote satisfies bl.IsValid(networkID) (launch validates before voting)",
		"one suffrage for all heights; embedded voteproofs are valid and built by the generator",
		"emission is asynchronous (Vote counts in a goroutine): the oracle is per-voteproof and order-insensitive, except clause (1b) which is judged by event order from a moment without any ballotbox goroutine",
		"clause (1b): the position of the box (last point) moves back only to take a suffrage-confirm result of the same height (property C06); an observation 'the box refuses a fresh ballot for this point as old' is recorded only while the last point is a majority and the box holds no suffrage-confirm record of that height (hook H1), and is dropped when a suffrage-confirm ballot of that height is handed to Vote or SetLastPoint* is called with a point of that height afterwards")

	r.Checks(150, 8000)
	r.Steps(30)

	r.ShrinkTime(20 * time.Second)

	rapid.Check(t, func(rt *rapid.T) {
		w, counted := bbMachine(rt, r, bbMachineOpts{maxN: 7, concurrent: true, rounds: true, held: true}, nil)

		nontrivial := counted > 0 && (w.hadConfl || w.hadExpel || w.hadConc)
		r.Case(strings.Join(w.history, ";"), nontrivial, fmt.Sprintf("counted:%v", counted > 0), fmt.Sprintf("expel:%v", w.hadExpel), fmt.Sprintf("concurrent:%v", w.hadConc))
		r.Class("emitted", int64(len(w.emitted)))
		r.Class("counted", int64(counted))
		r.Class("histories-with-several-round-height", bbCountMark(w))
		r.Class("histories-with-held-then-moved-height", bbCountPrefix(w, bbHeldMark))
		r.Class("histories-with-abandoned-point-observed", bbCountPrefix(w, "observed: "))

		if nontrivial && r.WantSample() {
			var vps []string
			for _, vp := range w.emitted {
				vps = append(vps, bbDescVP(vp))
			}

			r.Sample(map[string]any{"n": w.n, "threshold": w.th.Float64(), "local_member": w.localIdx < w.n, "history": w.history, "emitted": vps})
		}
	})

	if r.Failed() {
		return
	}

	// ---- second phase: long histories over many stage points with suffrage-confirm ballots and runs that reach results, so
	// that records are cleaned and recycled several times (what a voteproof contains then depends on the record bookkeeping)
	r.Checks(60, 3000)
	r.Steps(60)

	rapid.Check(t, func(rt *rapid.T) {
		w, counted := bbMachine(rt, r, bbMachineOpts{maxN: 5, checkC05: true, rounds: true}, nil)

		nontrivial := counted >= 2 && w.hadExpel
		r.Case("long;"+strings.Join(w.history, ";"), nontrivial, "phase:long", fmt.Sprintf("long-counted>=2:%v", counted >= 2))
		r.Class("emitted", int64(len(w.emitted)))
		r.Class("counted", int64(counted))
		r.Class("histories-with-several-round-height", bbCountMark(w))
	})
}

func bbCountMark(w *bbWorld) int64 { return bbCountPrefix(w, bbSeveralRoundsMark) }

func bbCountPrefix(w *bbWorld, prefix string) int64 {
	for _, h := range w.history {
		if strings.HasPrefix(h, prefix) {
			return 1
		}
	}

	return 0
}
