package p_states

import (
	"fmt"
	"os"
	"runtime"
	"strings"
	"sync"
	"testing"
	"time"

	"github.com/spikeekips/mitum/base"
	"github.com/spikeekips/mitum/isaac"
	isaacstates "github.com/spikeekips/mitum/isaac/states"
	"pgregory.net/rapid"
	"verif/internal/ev"
	"verif/internal/gen"
)

// c05State observes the record table and the record pool of one ballotbox (hook H1).
type c05State struct {
	mu       sync.Mutex
	w        *bbWorld
	restore  func()
	puts     int
	problems []string // recorded inside the pool callback (cannot fail the test from there), reported at the next check
	sigs     []string

	// ---- finished stage points (the ballotbox has moved past them)
	//
	// A key (stage point, suffrage-confirm flag) counts as finished once the height of box.LastPoint() is above the key's height:
	// the last point never goes back to a lower height, so from then on no ballot of that key is a new ballot, whatever the
	// majority / suffrage-confirm flags of the last point are (inside one height the box deliberately re-admits some lower
	// points, e.g. suffrage-confirm ballots after a draw; those are not judged). Everything is taken "as of the previous check",
	// i.e. before the current step began, so that the verdict does not depend on the order of events inside a step.
	prevLastH base.Height                 // height of box.LastPoint() read at the previous check
	prevSnap  map[string]map[uintptr]bool // key -> records (table + waiting-for-release list) at the previous check
	fin       map[string]map[uintptr]bool // finished key -> records it had when it was first seen finished and that are not released yet
	relAll    map[string]int              // key -> releases so far
	relFin    int                         // releases of records of finished keys (legitimate ones)
	expelOps  map[int64][]base.SuffrageExpelOperation
}

// legit returns the not yet released records of a finished key; ok=false when the key was not finished at the previous check.
// The caller holds s.mu.
func (s *c05State) legit(key string, h base.Height) (m map[uintptr]bool, ok bool) {
	if m, ok = s.fin[key]; ok {
		return m, true
	}

	if h >= s.prevLastH {
		return nil, false
	}

	m = map[uintptr]bool{}
	for id := range s.prevSnap[key] {
		m[id] = true
	}

	if s.fin == nil {
		s.fin = map[string]map[uintptr]bool{}
	}

	s.fin[key] = m

	return m, true
}

// gone: the key is finished and none of the records it had is left (all released, or it never had one).
func (s *c05State) gone(p base.StagePoint, isc bool) bool {
	s.mu.Lock()
	defer s.mu.Unlock()

	m, ok := s.legit(c05Key(p, isc), p.Height())

	return ok && len(m) == 0
}

func (s *c05State) attach(w *bbWorld) {
	s.w = w
	s.restore = isaacstates.VerifWrapPoolPut(func(id uintptr, point base.StagePoint, isc bool) {
		s.mu.Lock()
		defer s.mu.Unlock()

		s.puts++

		if point.IsZero() {
			// a live record always has a stage point (newVoterecords sets it before the record is stored); a record that is
			// released with a zero stage point was already released before and has not been re-used since.
			s.sigs = append(s.sigs, "record-released-twice")
			s.problems = append(s.problems, fmt.Sprintf("record %#x released to the pool again although it was already released (its stage point is zero)", id))

			return
		}

		for _, rec := range s.w.box.VerifRecords() {
			if rec.ID == id {
				s.sigs = append(s.sigs, "record-released-while-in-table")
				s.problems = append(s.problems, fmt.Sprintf("record %#x (%v sc=%v) released to the pool while the record table still holds it under key %q", id, point, isc, rec.Key))
			}
		}

		// released exactly once: after the box has moved past a stage point, only the records the point had at that time may be
		// released, each once. Any other release is the release of a record that was created for a finished point.
		key := c05Key(point, isc)

		if m, ok := s.legit(key, point.Height()); ok {
			switch {
			case m[id]:
				delete(m, id)
				s.relFin++
			case s.relAll[key] > 0:
				s.sigs = append(s.sigs, "finished-point-released-again")
				s.problems = append(s.problems, fmt.Sprintf("a record of %v sc=%v was released to the pool although the ballotbox had moved past that point before (last height %d) "+
					"and the record did not exist then; the records of this point were already released %d time(s): released more than once", point, isc, s.prevLastH, s.relAll[key]))
			default:
				s.sigs = append(s.sigs, "finished-point-record-never-live")
				s.problems = append(s.problems, fmt.Sprintf("a record of %v sc=%v was released to the pool although the ballotbox had moved past that point before (last height %d) "+
					"and the point had no record then: a record was created for a finished point", point, isc, s.prevLastH))
			}
		}

		if s.relAll == nil {
			s.relAll = map[string]int{}
		}

		s.relAll[key]++
	})
}

func (s *c05State) detach() {
	if s.restore != nil {
		s.restore()
	}
}

func c05Key(p base.StagePoint, isc bool) string {
	if isc {
		return "sf-" + p.String()
	}

	return p.String()
}

func (s *c05State) check(t ev.TB, r *ev.Rec, w *bbWorld) {
	hist := func() string { return strings.Join(w.history, "\n    ") }

	s.mu.Lock()
	problems, sigs := s.problems, s.sigs
	s.problems, s.sigs = nil, nil
	s.mu.Unlock()

	for i := range problems {
		r.Violation(t, sigs[i], "%s\n  history:\n    %s", problems[i], hist())
	}

	// the box's position first, then the table, then the waiting list (a record only moves table -> waiting list -> pool)
	curLastH := w.box.LastPoint().Height()
	table := w.box.VerifRecords()
	waiting := w.box.VerifRemoved()

	// a record of a finished point is never (re-)created: every record found in the table for a key that was already finished
	// before this step began must be one of the records the key had then
	var recreated []string

	s.mu.Lock()
	for _, rec := range table {
		if rec.Point.IsZero() {
			continue
		}

		if m, ok := s.legit(c05Key(rec.Point, rec.ISC), rec.Point.Height()); ok && !m[rec.ID] {
			recreated = append(recreated, fmt.Sprintf("the record table holds a record (key %q, %#x) of %v sc=%v although the ballotbox had moved past that point before this step (last height %d) "+
				"and the point did not have this record then (it had %d unreleased record(s); %d release(s) so far): a record of a finished point was created",
				rec.Key, rec.ID, rec.Point, rec.ISC, s.prevLastH, len(m), s.relAll[c05Key(rec.Point, rec.ISC)]))
		}
	}
	s.mu.Unlock()

	for i := range recreated {
		r.Violation(t, "finished-point-record-recreated", "%s\n  history:\n    %s", recreated[i], hist())
	}

	// record table: one object per key, object holds the point it is stored under, never a released (zero) record
	byID := map[uintptr]string{}

	for _, rec := range table {
		if other, found := byID[rec.ID]; found {
			r.Violation(t, "record-aliased", "the same record object %#x is stored under two keys %q and %q\n  history:\n    %s", rec.ID, other, rec.Key, hist())
		}

		byID[rec.ID] = rec.Key

		switch {
		case rec.Point.IsZero():
			r.Violation(t, "released-record-in-table", "record table key %q holds a record that was reset (zero stage point): a released record is still consulted\n  history:\n    %s", rec.Key, hist())
		case c05Key(rec.Point, rec.ISC) != rec.Key:
			r.Violation(t, "record-key-mismatch", "record table key %q holds the record of %v sc=%v\n  history:\n    %s", rec.Key, rec.Point, rec.ISC, hist())
		}
	}

	// isolation of the query API: Voted / MissingNodes of a stage point only speak about that stage point
	all := make([]base.Address, 0, w.n+1)
	for _, l := range w.locals {
		all = append(all, l.Address())
	}

	w.mu.Lock()
	points := bbSortedKeys(w.points)
	w.mu.Unlock()

	for _, ps := range points {
		sp, ok := c05ParsePoint(ps)
		if !ok {
			continue
		}

		votedNodes := map[string]bool{}

		for _, sf := range w.box.Voted(sp, all) {
			f := sf.Fact().(base.BallotFact) //nolint:forcetypeassert //...

			w.mu.Lock()
			_, offered := w.offered[bbKey{Point: ps, SC: false}][bbSFKey(sf)]
			w.mu.Unlock()

			switch {
			case !f.Point().Equal(sp):
				r.Violation(t, "voted-of-other-point", "Voted(%v) returned a sign fact for %v\n  history:\n    %s", sp, f.Point(), hist())
			case !offered:
				r.Violation(t, "voted-never-voted", "Voted(%v) returned a sign fact of %s that was never voted as an ordinary ballot for that stage point\n  history:\n    %s", sp, sf.Node(), hist())
			}

			votedNodes[sf.Node().String()] = true
		}

		// no longer consulted: a finished point whose records are all released (or that never had one) answers nothing
		gone := s.gone(sp, false)
		if gone && len(votedNodes) > 0 {
			r.Violation(t, "voted-from-released-point", "Voted(%v) answers with %d sign fact(s) although the ballotbox has moved past that point and its records were released\n  history:\n    %s",
				sp, len(votedNodes), hist())
		}

		missing, found, err := w.box.MissingNodes(sp)

		if gone {
			if found {
				r.Violation(t, "missing-nodes-from-released-point", "MissingNodes(%v) answers found=true missing=%v although the ballotbox has moved past that point and its records were released\n  history:\n    %s",
					sp, missing, hist())
			}

			if w.n >= 3 {
				svp, serr := w.box.StuckVoteproof(sp, s.expels(w, int64(sp.Height())))
				if serr == nil && svp != nil {
					r.Violation(t, "stuck-voteproof-from-released-point", "StuckVoteproof(%v) answers with a voteproof although the ballotbox has moved past that point and its records were released\n  history:\n    %s",
						sp, hist())
				}
			}
		}

		if err != nil || !found {
			continue
		}

		seen := map[string]bool{}

		for _, a := range missing {
			switch {
			case !w.suf.Exists(a):
				r.Violation(t, "missing-not-in-suffrage", "MissingNodes(%v) reports %s which is not a suffrage node\n  history:\n    %s", sp, a, hist())
			case a.Equal(w.locals[w.localIdx].Address()):
				r.Violation(t, "missing-local", "MissingNodes(%v) reports the local node\n  history:\n    %s", sp, hist())
			case seen[a.String()]:
				r.Violation(t, "missing-duplicate", "MissingNodes(%v) reports %s twice\n  history:\n    %s", sp, a, hist())
			}

			seen[a.String()] = true
		}
	}

	// what exists now is what a key that is finished now can legitimately still have
	snap := map[string]map[uintptr]bool{}

	for _, recs := range [][]isaacstates.VerifRecord{table, waiting} {
		for _, rec := range recs {
			if rec.Point.IsZero() {
				continue
			}

			k := c05Key(rec.Point, rec.ISC)
			if snap[k] == nil {
				snap[k] = map[uintptr]bool{}
			}

			snap[k][rec.ID] = true
		}
	}

	s.mu.Lock()
	s.prevSnap, s.prevLastH = snap, curLastH
	s.mu.Unlock()
}

func (s *c05State) expels(w *bbWorld, h int64) []base.SuffrageExpelOperation {
	if s.expelOps == nil {
		s.expelOps = map[int64][]base.SuffrageExpelOperation{}
	}

	if _, found := s.expelOps[h]; !found {
		s.expelOps[h] = w.expels(h, "full")
	}

	return s.expelOps[h]
}

var (
	c05PointsOnce sync.Once
	c05Points     map[string]base.StagePoint
)

func c05ParsePoint(s string) (base.StagePoint, bool) {
	// the worlds only use heights 32..64, rounds 0..2: find the stage point whose String() is s
	c05PointsOnce.Do(func() {
		c05Points = map[string]base.StagePoint{}

		for h := int64(32); h <= 64; h++ {
			for r := uint64(0); r <= 2; r++ {
				for _, st := range []base.Stage{base.StageINIT, base.StageACCEPT} {
					sp := base.NewStagePoint(base.RawPoint(h, r), st)
					c05Points[sp.String()] = sp
				}
			}
		}
	})

	sp, found := c05Points[s]

	return sp, found
}

// ---- second generator: the box walks up the heights stage by stage (so that every stage point is moved past, removed by one
// cleanup and released by the next), and late or replayed ballots for points at or below the box's position keep arriving

const c05MaxHeight = 40

func c05DescPoint(d bbBallotDesc) (base.StagePoint, bool) {
	stage := base.StageINIT
	if strings.HasPrefix(d.Kind, "accept") {
		stage = base.StageACCEPT
	}

	return base.NewStagePoint(bbPoint(d.Height, d.Round), stage), strings.HasPrefix(d.Kind, "sc")
}

var c05LateKinds = []string{"init", "init", "initX", "initExpel", "sc", "sc", "sc", "scX", "accept", "accept", "acceptX", "acceptExpel"}

func c05Machine(rt *rapid.T, r *ev.Rec, st *c05State) (w *bbWorld, counted, lateGone int) {
	n := rapid.IntRange(3, 5).Draw(rt, "n")
	th := base.Threshold(rapid.SampledFrom([]float64{67, 67, 60, 80, 100}).Draw(rt, "threshold"))
	localIdx := rapid.SampledFrom([]int{0, 0, n}).Draw(rt, "localIdx") // member or not a member

	w = newBBWorld(n, th, localIdx)
	w.baselineG = runtime.NumGoroutine()
	w.kinds = bbKindsC05

	st.attach(w)
	defer st.detach()

	check := func() {
		w.settle()

		for _, vp := range w.drain() {
			w.emitted = append(w.emitted, vp)

			if bbCheckEmitted(rt, r, w, vp) {
				counted++
			}
		}

		st.check(rt, r, w)
	}

	vote := func(t *rapid.T, d bbBallotDesc) {
		if _, _, err := w.vote(d); err != nil {
			t.Fatalf("Vote error: %v", err)
		}
	}

	var (
		cur     = int64(33) // the height the walk is at
		program []string    // stages of the current height still to run
		sent    []bbBallotDesc
		ran     []bbBallotDesc // one descriptor per stage run of the walk
	)

	newProgram := func(t *rapid.T) {
		switch rapid.IntRange(0, 2).Draw(t, "program") {
		case 0:
			program = []string{"initExpel", "sc", "acceptExpel"} // expel at INIT, suffrage confirm, ACCEPT
		default:
			program = []string{"init", "accept"}
		}
	}

	late := func(t *rapid.T, d bbBallotDesc) {
		if sp, isc := c05DescPoint(d); st.gone(sp, isc) {
			lateGone++
		}

		vote(t, d)
		sent = append(sent, d)
	}

	actions := map[string]func(*rapid.T){
		"stage": func(t *rapid.T) {
			// the next stage of the current height, voted by (almost) every node that may vote it
			if cur > c05MaxHeight {
				t.Skip("top height reached")
			}

			if len(program) < 1 {
				newProgram(t)
			}

			d := bbBallotDesc{Height: cur, Kind: program[0], ExpelBy: "full"}
			program = program[1:]

			voters := make([]int, 0, w.n)

			for i := 0; i < w.n; i++ {
				if d.Kind != "init" && d.Kind != "accept" && i == w.expelTarget() {
					continue
				}

				voters = append(voters, i)
			}

			start := rapid.IntRange(0, len(voters)-1).Draw(t, "start")
			k := len(voters)

			if rapid.IntRange(0, 5).Draw(t, "short") == 0 {
				k--
			}

			w.history = append(w.history, fmt.Sprintf("stage %s@%d by %d of %d", d.Kind, cur, k, len(voters)))

			for i := 0; i < k; i++ {
				d.Node = voters[(start+i)%len(voters)]
				vote(t, d)
				sent = append(sent, d)
			}

			ran = append(ran, d)

			if len(program) < 1 {
				cur++
			}
		},
		"late": func(t *rapid.T) {
			// ballots for stage points at or below the walk's position: mostly points the box has moved past, often ones whose
			// record was already removed and released; ordinary and suffrage-confirm, honest and conflicting, any signer
			m := rapid.IntRange(1, 4).Draw(t, "m")
			w.history = append(w.history, fmt.Sprintf("late x%d", m))

			for i := 0; i < m; i++ {
				d := bbBallotDesc{
					Height:  int64(rapid.IntRange(33, int(min(cur, c05MaxHeight))).Draw(t, "height")),
					Round:   uint64(rapid.SampledFrom([]int{0, 0, 0, 1}).Draw(t, "round")),
					Kind:    rapid.SampledFrom(c05LateKinds).Draw(t, "kind"),
					ExpelBy: rapid.SampledFrom([]string{"full", "full", "full", "one", "expired"}).Draw(t, "expelBy"),
				}

				if len(ran) > 0 && rapid.IntRange(0, 2).Draw(t, "ofRanStage") > 0 {
					// a stage the walk really ran (it had a record): another ballot of that stage point, or a
					// suffrage-confirm ballot for it
					o := ran[rapid.IntRange(0, len(ran)-1).Draw(t, "stage")]
					d.Height, d.Round = o.Height, o.Round

					switch {
					case strings.HasPrefix(o.Kind, "accept"):
						d.Kind = rapid.SampledFrom([]string{"accept", "acceptX", "acceptExpel"}).Draw(t, "akind")
					default:
						d.Kind = rapid.SampledFrom([]string{"init", "initX", "initExpel", "sc", "sc", "scX"}).Draw(t, "ikind")
					}
				}

				if d.Height >= cur {
					d.Round = 0 // a higher round of the walk's own height would end the walk's round 0 stages
				}

				d.Node = rapid.IntRange(0, w.n).Draw(t, "node")

				late(t, d)
			}
		},
		"replay": func(t *rapid.T) {
			// the very same ballots once more (a ballot that reaches the node again through another peer)
			if len(sent) < 1 {
				t.Skip("nothing sent yet")
			}

			m := rapid.IntRange(1, 3).Draw(t, "m")
			w.history = append(w.history, fmt.Sprintf("replay x%d", m))

			for i := 0; i < m; i++ {
				late(t, sent[rapid.IntRange(0, len(sent)-1).Draw(t, "sent")])
			}
		},
		"noise": func(t *rapid.T) {
			// a stray ballot around the walk's position (also ahead of it)
			d := genBBDesc(w).Draw(t, "ballot")
			d.Height = min(cur, c05MaxHeight) + int64(rapid.IntRange(0, 1).Draw(t, "ahead"))

			if rapid.IntRange(0, 3).Draw(t, "keepRound") > 0 {
				d.Round = 0
			}

			vote(t, d)
			sent = append(sent, d)
		},
		"skipHeight": func(t *rapid.T) {
			// the rest of the current height (or all of it) is never voted here: the box is taken past it by the next stage
			if cur >= c05MaxHeight {
				t.Skip("top height reached")
			}

			cur++
			program = nil
			w.history = append(w.history, fmt.Sprintf("walk skips to height %d", cur))
		},
		"setLastPoint": func(t *rapid.T) {
			// the states hand the box a voteproof they got elsewhere (sync): the height is finished without a cleanup
			if cur >= c05MaxHeight {
				t.Skip("top height reached")
			}

			vp := w.acceptVP(cur)
			ok := w.box.SetLastPointFromVoteproof(vp)
			w.history = append(w.history, fmt.Sprintf("setLastPoint %v majority=true -> %v", vp.Point(), ok))

			cur++
			program = nil
		},
		"count": func(t *rapid.T) {
			w.history = append(w.history, "count")
			w.box.Count()
		},
		"": func(t *rapid.T) { check() },
	}

	// rapid picks actions uniformly: the walk's stages and the late deliveries are what the histories are about
	actions["stage2"], actions["stage3"], actions["late2"] = actions["stage"], actions["stage"], actions["late"]

	rt.Repeat(actions)

	w.box.Count()
	check()

	return w, counted, lateGone
}

// ---- third generator: the box is advanced past a stage point WHILE that stage point is being counted.
//
// launch advances the box (SetLastPointFromVoteproof) from the states goroutine, at any moment relative to the goroutine that
// counts a record. The harness owns two functions that the ballotbox calls while it handles a ballot and while it counts a
// record: the threshold function and the suffrage lookup. An armed callback advances the box at its k-th call, i.e. at a
// precise place inside the operation, without any dependence on the scheduler.

type c05Arm struct {
	mu      sync.Mutex
	box     *isaacstates.Ballotbox
	armed   bool
	k       int // fire at the k-th callback call after arming
	calls   int
	advance func() bool

	fired     bool
	where     string // which callback fired, and the call number
	ok        bool   // the advance was accepted by the box
	before    []base.Voteproof
	lvpBefore base.Voteproof
}

func (a *c05Arm) arm(k int, advance func() bool) {
	a.mu.Lock()
	defer a.mu.Unlock()

	a.armed, a.k, a.calls, a.advance = true, k, 0, advance
	a.fired, a.where, a.ok, a.before, a.lvpBefore = false, "", false, nil, nil
}

func (a *c05Arm) disarm() (fired bool, where string, ok bool, before []base.Voteproof, lvpBefore base.Voteproof, calls int) {
	a.mu.Lock()
	defer a.mu.Unlock()

	a.armed = false

	return a.fired, a.where, a.ok, a.before, a.lvpBefore, a.calls
}

// hit is called from inside the ballotbox (possibly under the count lock and a record's lock): it only touches the voteproof
// channel, LastVoteproof and SetLastPoint, none of which needs a lock the caller can hold.
func (a *c05Arm) hit(name string) {
	a.mu.Lock()

	if !a.armed {
		a.mu.Unlock()

		return
	}

	a.calls++

	if a.calls != a.k {
		a.mu.Unlock()

		return
	}

	a.armed = false
	box, advance, call := a.box, a.advance, a.calls
	a.mu.Unlock()

	// whatever is in the channel now was handed out before the advance
	var before []base.Voteproof

drain:
	for {
		select {
		case vp := <-box.Voteproof():
			before = append(before, vp)
		default:
			break drain
		}
	}

	lvp := box.LastVoteproof()
	ok := advance() // returns after the box has moved

	a.mu.Lock()
	a.fired, a.where, a.ok, a.before, a.lvpBefore = true, fmt.Sprintf("%s function, call %d after arming", name, call), ok, before, lvp
	a.mu.Unlock()
}

// c05Quiet waits until no goroutine other than the caller is inside the ballotbox (or was started by it): read from the
// goroutine stacks, not guessed from elapsed time. false = still busy when the wait budget ran out; the caller then gives no
// verdict.
func c05Quiet() bool {
	buf := make([]byte, 1<<18)
	deadline := time.Now().Add(20 * time.Second)

	for i := 0; ; i++ {
		n := runtime.Stack(buf, true)

		switch {
		case n >= len(buf):
			buf = make([]byte, 2*len(buf))

			continue
		case !c05BoxBusy(string(buf[:n])):
			return true
		case time.Now().After(deadline):
			return false
		}

		if i < 50 {
			runtime.Gosched()
		} else {
			time.Sleep(100 * time.Microsecond)
		}
	}
}

func c05BoxBusy(stacks string) bool {
	blocks := strings.Split(stacks, "\n\n")

	for _, b := range blocks[1:] { // the first block is the calling goroutine
		if strings.Contains(b, "mitum/isaac/states.(*Ballotbox)") || strings.Contains(b, "mitum/isaac/states.(*voterecords)") {
			return true
		}
	}

	return false
}

// c05AdvanceTarget: the voteproof (always a majority) the states would hand to the box to take it past the stage point p.
func c05AdvanceTarget(w *bbWorld, p base.StagePoint, which string) base.Voteproof {
	h, r := int64(p.Height()), uint64(p.Round())

	switch {
	case which == "nextRound":
		return w.initVP(h, r+1)
	case which == "nextStage" && p.Stage() == base.StageINIT:
		return gen.FullACCEPTVoteproof(w.acceptFact(h, r, 0, nil), w.locals[:w.n], w.th, nil)
	case which == "nextHeight" && p.Stage() == base.StageACCEPT:
		return w.acceptVP(h + 1)
	default: // next stage of an ACCEPT point, next height of an INIT point
		return w.initVP(h+1, 0)
	}
}

func c05AdvanceMachine(rt *rapid.T, r *ev.Rec, st *c05State) (w *bbWorld, counted, firedWhileCompleting int, classes []string) {
	n := rapid.IntRange(3, 5).Draw(rt, "n")
	th := base.Threshold(rapid.SampledFrom([]float64{67, 67, 60, 80, 100}).Draw(rt, "threshold"))
	localIdx := rapid.SampledFrom([]int{0, 0, n}).Draw(rt, "localIdx")

	w = newBBWorld(n, th, localIdx)
	w.kinds = bbKindsC05

	// the same box as newBBWorld makes, with the two functions the box calls back routed through the arm
	arm := &c05Arm{}
	w.box = isaacstates.NewBallotbox(w.locals[localIdx].Address(),
		func() base.Threshold {
			arm.hit("threshold")

			return w.th
		},
		func(base.Height) (base.Suffrage, bool, error) {
			arm.hit("suffrage")

			if !w.sufFound.Load() {
				return nil, false, nil
			}

			return w.suf, true, nil
		})
	w.box.SetCountAfter(time.Millisecond)
	arm.box = w.box
	w.baselineG = runtime.NumGoroutine()

	st.attach(w)
	defer st.detach()

	hist := func() string { return strings.Join(w.history, "\n    ") }

	judge := func(vps []base.Voteproof) {
		for _, vp := range vps {
			w.emitted = append(w.emitted, vp)

			if bbCheckEmitted(rt, r, w, vp) {
				counted++
			}
		}
	}

	check := func() {
		judge(w.drain())
		st.check(rt, r, w)
	}

	vote := func(d bbBallotDesc) {
		if _, _, err := w.vote(d); err != nil {
			rt.Fatalf("Vote error: %v", err)
		}
	}

	episodes := rapid.IntRange(1, 3).Draw(rt, "episodes")
	base0 := int64(rapid.IntRange(33, 35).Draw(rt, "baseHeight"))

	for e := 0; e < episodes; e++ {
		h := base0 + 2*int64(e) // an episode ends at height h+1 at most: the next one starts above it
		d := bbBallotDesc{
			Height:  h,
			Round:   uint64(rapid.SampledFrom([]int{0, 0, 0, 1}).Draw(rt, "round")),
			Kind:    rapid.SampledFrom([]string{"init", "init", "accept", "accept", "initExpel", "acceptExpel", "sc"}).Draw(rt, "kind"),
			ExpelBy: "full",
		}
		p, _ := c05DescPoint(d)
		plain := d.Kind == "init" || d.Kind == "accept"

		var voters []int

		for i := 0; i < w.n; i++ {
			if plain || i != w.expelTarget() {
				voters = append(voters, i)
			}
		}

		voters = rapid.Permutation(voters).Draw(rt, "order")

		req := (w.n*bbT10(w.th) + 999) / 1000 // votes for one fact that finish the tally (expel-carrying ballots: everybody who is left)
		if !plain || req > len(voters) {
			req = len(voters)
		}

		if d.Kind == "sc" {
			req = min((w.n*bbT10(w.th)+999)/1000, len(voters))
		}

		dissent := -1 // one voter votes another fact
		if d.Kind != "initExpel" && d.Kind != "acceptExpel" && rapid.IntRange(0, 4).Draw(rt, "dissent") == 0 {
			dissent = rapid.IntRange(0, len(voters)-1).Draw(rt, "dissenter")
		}

		armedAt := req // the vote during which the box is advanced: mostly the one that completes the tally
		if rapid.IntRange(0, 4).Draw(rt, "armAnyVote") == 0 {
			armedAt = rapid.IntRange(1, len(voters)).Draw(rt, "armedAt")
		}

		if dissent >= 0 && dissent < armedAt && armedAt < len(voters) && rapid.Bool().Draw(rt, "armAfterDissent") {
			armedAt++ // the dissenter's vote does not count for the majority fact
		}

		driver := rapid.SampledFrom([]string{"vote", "vote", "count", "vote", "vote", "count", "unvalidated"}).Draw(rt, "driver")
		if driver == "unvalidated" && !c05UnvalidatedDriver() {
			driver = "vote"
		}

		unvalidated := d // the ballot of the "unvalidated" driver: valid by itself, but not for the suffrage
		unvalidated.Key = "wrongkey"

		if driver == "unvalidated" {
			if !plain && d.Kind != "sc" && rapid.Bool().Draw(rt, "expiredExpel") {
				unvalidated.Key, unvalidated.ExpelBy = "", "expired"
			}

			if rapid.IntRange(0, 3).Draw(rt, "unvalidatedFirst") > 0 {
				armedAt = 1 // no earlier vote has taken the box to the ballot's voteproof yet
			}
		}

		k := rapid.SampledFrom([]int{1, 2, 3, 3, 4, 4, 5}).Draw(rt, "k")
		if driver == "count" {
			k = (k-1)%3 + 1 // Count() does not go through the two lookups a Vote makes before it counts
		}

		which := rapid.SampledFrom([]string{"nextStage", "nextRound", "nextHeight"}).Draw(rt, "target")
		byPoint := rapid.Bool().Draw(rt, "bySetLastPoint")
		position := rapid.SampledFrom([]string{"asIs", "previousBlock", "previousBlock"}).Draw(rt, "position")
		target := c05AdvanceTarget(w, p, which)
		tp := target.Point()

		w.history = append(w.history, fmt.Sprintf("episode: %s@(%d,%d) voters %v dissenter %d; box at %s; during vote #%d (%s) the box is advanced to %v (%s, %s) at callback call %d",
			d.Kind, d.Height, d.Round, voters, dissent, position, armedAt, driver, tp, which, map[bool]string{true: "SetLastPoint", false: "SetLastPointFromVoteproof"}[byPoint], k))

		if position == "previousBlock" {
			// where the states leave the box after the previous block (or the previous round's draw)
			var vp base.Voteproof = w.acceptVP(h - 1)
			if d.Round > 0 {
				vp = w.drawACCEPTVP(h, d.Round-1)
			}

			w.box.SetLastPointFromVoteproof(vp)
		}

		desc := func(i int) bbBallotDesc {
			di := d
			di.Node = voters[i]

			if i == dissent {
				di.Kind += "X"
			}

			return di
		}

		same := 0 // votes for the majority fact before the armed vote

		for i := 0; i < armedAt-1; i++ {
			vote(desc(i))

			if i != dissent {
				same++
			}

			if !c05Quiet() {
				return w, counted, firedWhileCompleting, append(classes, "adv-not-quiet:true")
			}
		}

		check()

		completing := armedAt-1 != dissent && same < req && same+1 >= req

		advance := func() bool {
			if byPoint {
				lp, err := isaac.NewLastPoint(tp, true, false)
				if err != nil {
					return false
				}

				return w.box.SetLastPoint(lp)
			}

			return w.box.SetLastPointFromVoteproof(target)
		}

		// ---- the armed operation. Nothing else runs inside the box: every voteproof handed out from now on is handed out
		// either before the advance (collected inside the callback, just before it advances) or after the advance has returned.
		switch driver {
		case "vote":
			arm.arm(k, advance)
			vote(desc(armedAt - 1))
		case "unvalidated":
			// a ballot the box does not accept for the suffrage (signed with a key that is not the node's, or carrying an
			// expel operation that is out of date at its height): nothing is recorded, but the box looks at the voteproof
			// the ballot carries, in a goroutine of its own
			completing = false
			unvalidated.Node = voters[armedAt-1]
			arm.arm(k, advance)
			vote(unvalidated)
		default:
			// the vote arrives while the suffrage is not known yet (it is stored uncounted); the count that completes the
			// tally is a Count() call
			w.sufFound.Store(false)
			vote(desc(armedAt - 1))

			if !c05Quiet() {
				return w, counted, firedWhileCompleting, append(classes, "adv-not-quiet:true")
			}

			w.sufFound.Store(true)
			w.history = append(w.history, "count (armed)")
			arm.arm(k, advance)
			w.box.Count()
		}

		quiet := c05Quiet()
		fired, where, ok, before, lvpBefore, calls := arm.disarm()

		if !quiet {
			return w, counted, firedWhileCompleting, append(classes, "adv-not-quiet:true")
		}

		after := w.drain()
		w.history = append(w.history, fmt.Sprintf("advance fired=%v (%s; %d callback calls) accepted=%v; voteproofs handed out before the advance %v, after it %v",
			fired, where, calls, ok, c05VPPoints(before), c05VPPoints(after)))

		if fired && ok {
			// the advance returned before any of `after` was handed out: no voteproof of a stage point below the (majority)
			// point the box was taken to may be among them
			sig, sigLVP := "passed-point-voteproof-after-advance", "last-voteproof-replaced-by-passed-point"
			if driver == "unvalidated" {
				sig, sigLVP = "ballot-voteproof-after-advance", "ballot-voteproof-after-advance"
			}

			for _, vp := range after {
				if vp.Point().Compare(tp) < 0 {
					r.Violation(rt, sig, "the ballotbox was advanced to %v (majority; accepted) inside the %s; after that advance had returned, the box handed out "+
						"the voteproof of %v on Voteproof(): the record of a stage point the box has moved past was still consulted\n  vp=%s\n  history:\n    %s", tp, where, vp.Point(), bbDescVP(vp), hist())
				}
			}

			if lvp := w.box.LastVoteproof(); lvp != nil && (lvpBefore == nil || lvp.ID() != lvpBefore.ID()) && lvp.Point().Compare(tp) < 0 {
				r.Violation(rt, sigLVP, "the ballotbox was advanced to %v (majority; accepted) inside the %s; after that, LastVoteproof() was replaced by the voteproof of %v, "+
					"a stage point the box has moved past (LastPoint() is %v)\n  history:\n    %s", tp, where, lvp.Point(), w.box.LastPoint().StagePoint, hist())
			}
		}

		judge(before)
		judge(after)

		if fired && ok {
			classes = append(classes, "adv-fired:true")

			if completing {
				firedWhileCompleting++
			}

			// not consulted later either
			if last := w.box.LastPoint(); last.StagePoint.Equal(tp) {
				w.history = append(w.history, "count")
				w.box.Count()

				later := w.drain()

				for _, vp := range later {
					if vp.Point().Compare(tp) < 0 {
						r.Violation(rt, "passed-point-counted-after-advance", "the ballotbox is at %v (majority) since the advance inside the %s; a later Count() handed out the voteproof of %v, "+
							"a stage point the box has moved past\n  vp=%s\n  history:\n    %s", tp, where, vp.Point(), bbDescVP(vp), hist())
					}
				}

				judge(later)
			}
		}

		st.check(rt, r, w)

		// the votes that are left arrive late
		for i := armedAt; i < len(voters); i++ {
			vote(desc(i))
		}

		if rapid.Bool().Draw(rt, "replay") {
			vote(desc(rapid.IntRange(0, len(voters)-1).Draw(rt, "replayed")))
		}

		if !c05Quiet() {
			return w, counted, firedWhileCompleting, append(classes, "adv-not-quiet:true")
		}

		check()
	}

	w.box.Count()

	if c05Quiet() {
		check()
	}

	return w, counted, firedWhileCompleting, classes
}

// ---- fourth generator: the FIRST ballots of a stage point that has no record yet arrive at the same moment from several nodes
//
// launch hands every ballot that comes in over the network to Ballotbox.Vote from the goroutine of its own network handler: the
// first ballots of a new stage point (ordinary and suffrage-confirm) of several nodes are inside Vote together. The oracle does
// not depend on which schedule happens: whatever the interleaving, a vote that Vote() accepted is recorded for its stage point.

const c05FirstBase = 33

type c05FirstVote struct {
	d     bbBallotDesc
	bl    base.Ballot
	key   bbKey
	voted bool
	err   error
}

// c05Offer registers a ballot as handed to Vote (what bbWorld.vote does before it votes), from the test goroutine.
func c05Offer(w *bbWorld, bl base.Ballot) bbKey {
	sf := bl.SignFact()
	k := bbKey{Point: bl.Point().String(), SC: bbIsSC(sf.Fact())}

	w.mu.Lock()
	defer w.mu.Unlock()

	if w.offered[k] == nil {
		w.offered[k] = map[string]base.BallotSignFact{}
	}

	w.offered[k][bbSFKey(sf)] = sf
	w.points[bl.Point().String()] = true

	if vp := bl.Voteproof(); vp != nil {
		w.embedded[vp.ID()] = vp
	}

	return k
}

func c05FirstBallotsMachine(rt *rapid.T, r *ev.Rec, st *c05State, heights int) (w *bbWorld, rounds, fullRounds, scRounds int, classes []string) {
	n := rapid.IntRange(4, 8).Draw(rt, "n")
	th := base.Threshold(rapid.SampledFrom([]float64{100, 100, 67, 80}).Draw(rt, "threshold"))
	localIdx := rapid.SampledFrom([]int{0, 0, n}).Draw(rt, "localIdx")

	w = newBBWorld(n, th, localIdx)
	w.kinds = bbKindsC05

	st.attach(w)
	defer st.detach()

	hist := func() string { return strings.Join(w.history, "\n    ") }

	all := make([]base.Address, 0, n+1)
	for _, l := range w.locals {
		all = append(all, l.Address())
	}

	majorities := map[string]bool{} // key|fact -> a majority voteproof was handed out

	judge := func() {
		for _, vp := range w.drain() {
			w.emitted = append(w.emitted, vp)
			bbCheckEmitted(rt, r, w, vp)

			if vp.Result() == base.VoteResultMajority && vp.Majority() != nil {
				majorities[fmt.Sprintf("%s|%v|%s", vp.Point(), bbIsSC(vp.Majority()), vp.Majority().Hash())] = true
			}
		}
	}

	// one round: the ballots of vs go into Vote together
	round := func(label string, vs []c05FirstVote) bool {
		for i := range vs {
			bl, ok := w.cachedBallot(vs[i].d)
			if !ok {
				rt.Fatalf("harness precondition: ballot %v is not valid", vs[i].d)
			}

			vs[i].bl, vs[i].key = bl, c05Offer(w, bl)
		}

		ds := make([]string, len(vs))
		for i := range vs {
			ds[i] = vs[i].d.String()
		}

		w.history = append(w.history, fmt.Sprintf("concurrently (%s), no record for the stage point yet: %s", label, strings.Join(ds, ", ")))

		start := make(chan struct{})

		var ready, done sync.WaitGroup

		for i := range vs {
			ready.Add(1)
			done.Add(1)

			go func(v *c05FirstVote) {
				defer done.Done()

				ready.Done()
				<-start

				v.voted, v.err = w.box.Vote(v.bl)
			}(&vs[i])
		}

		ready.Wait()
		close(start)
		done.Wait()

		for i := range vs {
			if vs[i].err != nil {
				rt.Fatalf("Vote error: %v", vs[i].err)
			}
		}

		if !c05Quiet() {
			return false
		}

		rounds++

		// ---- what was accepted, per key and fact
		type acc struct {
			p     base.StagePoint
			sfs   []base.BallotSignFact
			facts map[string]int
			plain bool // every ballot of the key is an ordinary one without expels
		}

		accepted := map[bbKey]*acc{}
		full := true

		var results []string

		for i := range vs {
			v := vs[i]
			results = append(results, fmt.Sprintf("n%02d %s: %v", v.d.Node, v.d.Kind, v.voted))

			if !v.voted {
				full = false

				continue
			}

			sf := v.bl.SignFact()

			w.mu.Lock()
			if w.accepted[v.key] == nil {
				w.accepted[v.key] = map[string]base.BallotSignFact{}
			}

			w.accepted[v.key][sf.Node().String()] = sf
			w.mu.Unlock()

			a := accepted[v.key]
			if a == nil {
				a = &acc{p: v.bl.Point(), facts: map[string]int{}, plain: true}
				accepted[v.key] = a
			}

			a.sfs = append(a.sfs, sf)
			a.facts[sf.Fact().Hash().String()]++

			if strings.Contains(v.d.Kind, "Expel") || strings.HasPrefix(v.d.Kind, "sc") {
				a.plain = false
			}
		}

		if full {
			fullRounds++
		}

		res := strings.Join(results, "; ")

		last := w.box.LastPoint()
		table := map[string]bool{}

		for _, rec := range w.box.VerifRecords() {
			table[rec.Key] = true
		}

		for _, k := range []bbKey{{Point: vs[0].key.Point, SC: false}, {Point: vs[0].key.Point, SC: true}} {
			a := accepted[k]
			if a == nil {
				continue
			}

			// the box has not moved past the stage point (cleanup only takes records below the last point): its record is live
			if !last.IsZero() && a.p.Compare(last.StagePoint) < 0 {
				continue
			}

			if !table[c05Key(a.p, k.SC)] {
				r.Violation(rt, "accepted-vote-without-record", "Vote() accepted %d ballot(s) of %v sc=%v, the box is at %v, but the record table has no record of that stage point\n  Vote results: %s\n  history:\n    %s",
					len(a.sfs), a.p, k.SC, last.StagePoint, res, hist())
			}

			if k.SC {
				continue
			}

			got := map[string]bool{}
			for _, sf := range w.box.Voted(a.p, all) {
				got[bbSFKey(sf)] = true
			}

			for _, sf := range a.sfs {
				if !got[bbSFKey(sf)] {
					r.Violation(rt, "accepted-vote-lost-in-orphan-record", "Vote() returned true for the ballot of %s for %v, but Voted(%v) of the stage point's record does not have it (it has %d of the %d "+
						"accepted votes; the box is at %v): the accepted vote is not in the record of its stage point\n  Vote results: %s\n  history:\n    %s",
						sf.Node(), a.p, a.p, len(got), len(a.sfs), last.StagePoint, res, hist())
				}
			}

			if missing, found, err := w.box.MissingNodes(a.p); err == nil && found {
				for _, m := range missing {
					for _, sf := range a.sfs {
						if sf.Node().Equal(m) {
							r.Violation(rt, "accepted-voter-reported-missing", "Vote() returned true for the ballot of %s for %v, but MissingNodes(%v) reports that node as missing\n  Vote results: %s\n  history:\n    %s",
								m, a.p, a.p, res, hist())
						}
					}
				}
			}
		}

		// ---- the tally sees every accepted vote: count once more (nothing else is running), then a key with enough accepted votes
		// for one fact has produced its majority voteproof, unless the box has gone past the key by another way
		w.box.Count()

		if !c05Quiet() {
			return false
		}

		judge()

		last = w.box.LastPoint()

		for _, k := range []bbKey{{Point: vs[0].key.Point, SC: false}, {Point: vs[0].key.Point, SC: true}} {
			a := accepted[k]
			if a == nil {
				continue
			}

			req := w.n - 1 // ballots with expels and suffrage-confirm ballots: every node that is left
			if a.plain {
				req = min(w.n, (w.n*bbT10(w.th)+999)/1000)
			}

			for f, c := range a.facts {
				if c < req || majorities[fmt.Sprintf("%s|%v|%s", a.p, k.SC, f)] {
					continue
				}

				if !last.Before(a.p, k.SC) {
					continue // moved on by another way (a voteproof taken from a ballot)
				}

				r.Violation(rt, "accepted-votes-not-tallied", "Vote() accepted %d ballots of %v sc=%v for one fact (%d are enough for a majority; n=%d threshold=%v), everything was counted, "+
					"but the box handed out no majority voteproof of that stage point and still waits at %v: the tally of the stage point does not see every accepted vote\n  Vote results: %s\n  history:\n    %s",
					c, a.p, k.SC, req, w.n, w.th, last.StagePoint, res, hist())
			}
		}

		return true
	}

	group := func(h int64, kinds []string, label string) []c05FirstVote {
		var vs []c05FirstVote

		for _, kind := range kinds {
			var voters []int

			for i := 0; i < w.n; i++ {
				if kind == "init" || kind == "accept" || i != w.expelTarget() {
					voters = append(voters, i)
				}
			}

			voters = rapid.Permutation(voters).Draw(rt, label+"Order")

			k := len(voters)
			if len(kinds) > 1 {
				k = min(k, 4) // a mixed group: 4 + 4 goroutines
			} else if rapid.IntRange(0, 3).Draw(rt, label+"Fewer") == 0 {
				k = rapid.IntRange(min(4, len(voters)), len(voters)).Draw(rt, label+"Voters")
			}

			dissent := -1
			if (kind == "init" || kind == "accept") && rapid.IntRange(0, 5).Draw(rt, label+"Dissent") == 0 {
				dissent = rapid.IntRange(0, k-1).Draw(rt, label+"Dissenter")
			}

			for i := 0; i < k; i++ {
				d := bbBallotDesc{Height: h, Kind: kind, Node: voters[i], ExpelBy: "full"}
				if i == dissent {
					d.Kind += "X"
				}

				vs = append(vs, c05FirstVote{d: d})
			}
		}

		return vs
	}

	for i := 0; i < heights; i++ {
		h := int64(c05FirstBase + i)

		var program [][]string

		switch rapid.IntRange(0, 6).Draw(rt, "program") {
		case 0:
			program = [][]string{{"init"}}
		case 1:
			program = [][]string{{"init"}, {"accept"}}
		case 2:
			program = [][]string{{"initExpel"}, {"sc"}}
		case 3:
			program = [][]string{{"initExpel"}, {"sc"}, {"acceptExpel"}}
		case 4:
			program = [][]string{{"sc"}} // the suffrage-confirm ballots are the first this node sees of the height
		case 5:
			program = [][]string{{"initExpel", "sc"}} // nodes that are ahead already confirm
		default:
			program = [][]string{{"accept"}} // the INIT stage was missed
		}

		for j, kinds := range program {
			for _, kind := range kinds {
				if kind == "sc" {
					scRounds++
				}
			}

			if !round(strings.Join(kinds, "+"), group(h, kinds, fmt.Sprintf("s%d", j))) {
				return w, rounds, fullRounds, scRounds, append(classes, "first-not-quiet:true")
			}
		}

		st.check(rt, r, w)
	}

	// the box goes above everything: two cleanups (remove, release)
	top := int64(c05FirstBase + heights)

	for _, kind := range []string{"init", "accept"} {
		for i := 0; i < w.n; i++ {
			if _, _, err := w.vote(bbBallotDesc{Height: top, Kind: kind, Node: i, ExpelBy: "full"}); err != nil {
				rt.Fatalf("Vote error: %v", err)
			}
		}

		if !c05Quiet() {
			return w, rounds, fullRounds, scRounds, append(classes, "first-not-quiet:true")
		}

		judge()
		st.check(rt, r, w)
	}

	return w, rounds, fullRounds, scRounds, classes
}

// c05UnvalidatedDriver: the "unvalidated" driver of phase 3 (the box is advanced while it handles, in its deferred goroutine, a
// ballot that it did not validate for the suffrage) finds a defect on the tree as of 07e1ede: the deferred function of
// Ballotbox.vote reads the last point, then calls the threshold function and the suffrage lookup, and hands out the ballot's
// voteproof judged by the last point it read before (signature ballot-voteproof-after-advance; proposed fix
// /verif/mutants/proposed-fix-C05-deferred-voteproof-stale-last.diff). The driver is off until the maintainer has decided
// (fix in /repo, or a known-finding line); VERIF_C05_UNVALIDATED=1 switches it on.
func c05UnvalidatedDriver() bool { return os.Getenv("VERIF_C05_UNVALIDATED") != "" }

func c05VPPoints(vps []base.Voteproof) []string {
	ss := make([]string, len(vps))
	for i := range vps {
		ss[i] = vps[i].Point().String()
	}

	return ss
}

func TestC05(t *testing.T) {
	r := ev.Start(t, "C05")
	defer r.Finish()
	r.Rule("phase 1: the C04 state machine with longer histories over many stage points (ordinary and suffrage-confirm ballots, runs that reach majorities, SetLastPoint advances) so that cleanup runs " +
		"several times. phase 2 (walk): the box is walked up the heights 33.. stage by stage (INIT/ACCEPT, or expel INIT / suffrage confirm / ACCEPT; sometimes a node short, heights skipped or finished by " +
		"SetLastPointFromVoteproof) so that every stage point is moved past, removed by one cleanup and released by the next, while late ballots (ordinary, conflicting, expel-carrying and suffrage-confirm, any signer) " +
		"for stage points at or below the box's position, exact replays of earlier ballots and stray ballots around the position keep arriving between the stages. " +
		"after every step the record table (hook H1) must hold one live record object per key, stored under the key of the point it holds, never a released one; every release to the " +
		"record pool must be of a record that is neither still in the table nor already released; a stage point counts as finished once the height of LastPoint() is above its height (as of the previous step): " +
		"the table must not hold a record of a finished point that the point did not have when it became finished (never re-created), only those records may be released and each once (no second release of the " +
		"point, no release of a suffrage-confirm record that never was live), and Voted/MissingNodes/StuckVoteproof answer nothing for a finished point with no record left; Voted/MissingNodes only speak about " +
		"their own stage point; emitted voteproofs are judged as in C04. " +
		"phase 3 (advance while counting): 1-3 episodes on rising heights; in each a stage point P (INIT/ACCEPT, expel-carrying, suffrage-confirm; round 0/1) is voted node by node (drawn order, sometimes a dissenter) " +
		"and during one vote (mostly the one that completes P's tally; driven by Vote, or by Count() after the vote was stored while the suffrage was unknown) the harness-owned threshold / suffrage-lookup function that the " +
		"box calls advances the box at its k-th call (k drawn) past P, to a majority point of the next stage, next round or next height, by SetLastPoint or SetLastPointFromVoteproof, as launch does from the states goroutine; " +
		"the box is quiet before the armed operation (read from the goroutine stacks), voteproofs handed out before the advance are taken from the channel inside the callback just before it advances: " +
		"every voteproof received afterwards was handed out after the advance returned and must not be of a stage point below the point the box was taken to, LastVoteproof() must not be replaced by such a voteproof, " +
		"and a later Count() must not hand one out (event order only, no timing). " +
		"phase 4 (concurrent first ballots): n=4..8 nodes, 8..14 rising heights per case; at every stage point of a drawn program (INIT / INIT+ACCEPT / expel INIT + suffrage confirm (+ ACCEPT) / suffrage confirm first / " +
		"expel INIT and suffrage confirm mixed / ACCEPT only) the FIRST ballots of the stage point, which has no record yet, go into Vote() together from 4..8 goroutines (barrier start; drawn voters, sometimes a dissenter); " +
		"when all is quiet (goroutine stacks) every vote for which Vote() returned true must be recorded for its stage point whatever the schedule was: the record table has a record of the key, Voted() of the point " +
		"has the sign fact, MissingNodes() does not report the voter, and after a Count() a key with enough accepted votes for one fact has produced its majority voteproof unless the box went past it; then the box " +
		"is taken above everything by two majorities (remove + release) under the release rules above. " +
		"non-trivial = phase 1: history with >=2 counted voteproofs (>=2 cleanup cycles) and a suffrage-confirm ballot; phase 2: >=3 counted voteproofs, >=1 legitimate release of a finished point's record and " +
		">=1 late ballot for a finished point with no record left; phase 3: >=1 accepted advance that fired during the vote that (by the reference tally) completes the tally of P; " +
		"phase 4: >=8 concurrent rounds, >=1 round with every vote accepted and >=1 suffrage-confirm round; distinct by history")
	r.Floor(15)
	r.Assume("ballots satisfy bl.IsValid(networkID)", "record identity = object address observed through the verif hook; pool re-use of an address for a new record is legitimate",
		"'moved past a stage point' is judged only across heights (LastPoint() never returns to a lower height); inside one height the box re-admits some lower points on purpose "+
			"(suffrage-confirm ballots after a draw), those are not judged",
		"phase 3: the advance targets are majority points (what the states set after a majority voteproof); with a majority last point every lower stage point is unambiguously passed, also for suffrage-confirm records; "+
			"an advance made from inside the threshold / suffrage-lookup function stands for an advance by another goroutine that lands at that place of the count")

	r.Checks(120, 6000)
	r.Steps(50)

	r.ShrinkTime(20 * time.Second)

	rapid.Check(t, func(rt *rapid.T) {
		st := &c05State{}
		w, counted := bbMachine(rt, r, bbMachineOpts{maxN: 5, concurrent: false, checkC05: true}, st)

		hadSC := false

		for k := range w.offered {
			if k.SC {
				hadSC = true
			}
		}

		nontrivial := counted >= 2 && hadSC
		r.Case(strings.Join(w.history, ";"), nontrivial, fmt.Sprintf("sc:%v", hadSC), fmt.Sprintf("counted>=2:%v", counted >= 2))
		r.Class("pool_puts", int64(st.puts))

		r.Class("releases_of_finished_points", int64(st.relFin))

		if nontrivial && r.WantSample() {
			r.Sample(map[string]any{"n": w.n, "threshold": w.th.Float64(), "history": w.history, "counted_voteproofs": counted, "pool_puts": st.puts})
		}
	})

	if r.Failed() {
		return
	}

	// ---- second phase: the walk with late and replayed ballots
	r.Checks(60, 3000)
	r.Steps(40)

	rapid.Check(t, func(rt *rapid.T) {
		st := &c05State{}
		w, counted, lateGone := c05Machine(rt, r, st)

		nontrivial := counted >= 3 && lateGone >= 1 && st.relFin >= 1
		r.Case("walk;"+strings.Join(w.history, ";"), nontrivial, "phase:walk", fmt.Sprintf("walk-late-after-release:%v", lateGone >= 1), fmt.Sprintf("walk-counted>=3:%v", counted >= 3))
		r.Class("pool_puts", int64(st.puts))
		r.Class("releases_of_finished_points", int64(st.relFin))
		r.Class("late_ballots_after_release", int64(lateGone))

		if nontrivial && r.WantSample() {
			r.Sample(map[string]any{"phase": "walk", "n": w.n, "threshold": w.th.Float64(), "history": w.history, "counted_voteproofs": counted, "pool_puts": st.puts,
				"late_ballots_after_release": lateGone, "releases_of_finished_points": st.relFin})
		}
	})

	if r.Failed() {
		return
	}

	// ---- third phase: the box is advanced past a stage point while that stage point is being counted
	r.Checks(100, 4000)

	phase3 := time.Now()
	defer func() { t.Logf("phase 3 took %v", time.Since(phase3)) }()

	rapid.Check(t, func(rt *rapid.T) {
		st := &c05State{}
		w, counted, firedWhileCompleting, classes := c05AdvanceMachine(rt, r, st)

		nontrivial := firedWhileCompleting >= 1
		r.Case("advance;"+strings.Join(w.history, ";"), nontrivial, append(classes, "phase:advance", fmt.Sprintf("adv-during-completing-vote:%v", nontrivial))...)
		r.Class("pool_puts", int64(st.puts))
		r.Class("advances_during_completing_count", int64(firedWhileCompleting))

		if nontrivial && r.WantSample() {
			r.Sample(map[string]any{"phase": "advance", "n": w.n, "threshold": w.th.Float64(), "history": w.history, "counted_voteproofs": counted,
				"advances_during_completing_count": firedWhileCompleting})
		}
	})

	if r.Failed() {
		return
	}

	// ---- fourth phase: the first ballots of fresh stage points arrive concurrently
	r.Checks(40, 1500)

	phase4 := time.Now()
	defer func() { t.Logf("phase 4 took %v", time.Since(phase4)) }()

	rapid.Check(t, func(rt *rapid.T) {
		st := &c05State{}
		heights := rapid.IntRange(8, r.N(14, 22)).Draw(rt, "heights")
		w, rounds, fullRounds, scRounds, classes := c05FirstBallotsMachine(rt, r, st, heights)

		nontrivial := rounds >= 8 && fullRounds >= 1 && scRounds >= 1
		r.Case("first;"+fmt.Sprintf("n=%d;th=%v;local=%d;", w.n, w.th, w.localIdx)+strings.Join(w.history, ";"), nontrivial,
			append(classes, "phase:first-ballots", fmt.Sprintf("first-sc-round:%v", scRounds >= 1), fmt.Sprintf("first-all-accepted-round:%v", fullRounds >= 1))...)
		r.Class("pool_puts", int64(st.puts))
		r.Class("concurrent_first_ballot_rounds", int64(rounds))
		r.Class("concurrent_first_ballot_rounds_all_accepted", int64(fullRounds))

		if nontrivial && r.WantSample() {
			r.Sample(map[string]any{"phase": "first-ballots", "n": w.n, "threshold": w.th.Float64(), "history": w.history, "rounds": rounds, "rounds_all_accepted": fullRounds})
		}
	})
}
