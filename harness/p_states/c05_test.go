package p_states

import (
	"fmt"
	"strings"
	"sync"
	"testing"
	"time"

	"github.com/spikeekips/mitum/base"
	isaacstates "github.com/spikeekips/mitum/isaac/states"
	"pgregory.net/rapid"
	"verif/internal/ev"
)

// c05State observes the record table and the record pool of one ballotbox (hook H1).
type c05State struct {
	mu       sync.Mutex
	w        *bbWorld
	restore  func()
	puts     int
	problems []string // recorded inside the pool callback (cannot fail the test from there), reported at the next check
	sigs     []string
}

func (s *c05State) attach(w *bbWorld) {
	s.w = w
	s.restore = isaacstates.VerifWrapPoolPut(func(id uintptr, point base.StagePoint, isc bool) {
		s.mu.Lock()
		defer s.mu.Unlock()

		s.puts++

		if point.IsZero() {
			// a live record always has a stage point (newVoterecords sets it before the record is stored); a record that is
			// released with a zero stage point was already released before and has not been re-used since.
			s.sigs = append(s.sigs, "record-released-twice")
			s.problems = append(s.problems, fmt.Sprintf("record %#x released to the pool again although it was already released (its stage point is zero)", id))

			return
		}

		for _, rec := range s.w.box.VerifRecords() {
			if rec.ID == id {
				s.sigs = append(s.sigs, "record-released-while-in-table")
				s.problems = append(s.problems, fmt.Sprintf("record %#x (%v sc=%v) released to the pool while the record table still holds it under key %q", id, point, isc, rec.Key))
			}
		}
	})
}

func (s *c05State) detach() {
	if s.restore != nil {
		s.restore()
	}
}

func c05Key(p base.StagePoint, isc bool) string {
	if isc {
		return "sf-" + p.String()
	}

	return p.String()
}

func (s *c05State) check(t ev.TB, r *ev.Rec, w *bbWorld) {
	hist := func() string { return strings.Join(w.history, "\n    ") }

	s.mu.Lock()
	problems, sigs := s.problems, s.sigs
	s.problems, s.sigs = nil, nil
	s.mu.Unlock()

	for i := range problems {
		r.Violation(t, sigs[i], "%s\n  history:\n    %s", problems[i], hist())
	}

	// record table: one object per key, object holds the point it is stored under, never a released (zero) record
	byID := map[uintptr]string{}

	for _, rec := range w.box.VerifRecords() {
		if other, found := byID[rec.ID]; found {
			r.Violation(t, "record-aliased", "the same record object %#x is stored under two keys %q and %q\n  history:\n    %s", rec.ID, other, rec.Key, hist())
		}

		byID[rec.ID] = rec.Key

		switch {
		case rec.Point.IsZero():
			r.Violation(t, "released-record-in-table", "record table key %q holds a record that was reset (zero stage point): a released record is still consulted\n  history:\n    %s", rec.Key, hist())
		case c05Key(rec.Point, rec.ISC) != rec.Key:
			r.Violation(t, "record-key-mismatch", "record table key %q holds the record of %v sc=%v\n  history:\n    %s", rec.Key, rec.Point, rec.ISC, hist())
		}
	}

	// isolation of the query API: Voted / MissingNodes of a stage point only speak about that stage point
	all := make([]base.Address, 0, w.n+1)
	for _, l := range w.locals {
		all = append(all, l.Address())
	}

	w.mu.Lock()
	points := bbSortedKeys(w.points)
	w.mu.Unlock()

	for _, ps := range points {
		sp, ok := c05ParsePoint(ps)
		if !ok {
			continue
		}

		votedNodes := map[string]bool{}

		for _, sf := range w.box.Voted(sp, all) {
			f := sf.Fact().(base.BallotFact) //nolint:forcetypeassert //...

			w.mu.Lock()
			_, offered := w.offered[bbKey{Point: ps, SC: false}][bbSFKey(sf)]
			w.mu.Unlock()

			switch {
			case !f.Point().Equal(sp):
				r.Violation(t, "voted-of-other-point", "Voted(%v) returned a sign fact for %v\n  history:\n    %s", sp, f.Point(), hist())
			case !offered:
				r.Violation(t, "voted-never-voted", "Voted(%v) returned a sign fact of %s that was never voted as an ordinary ballot for that stage point\n  history:\n    %s", sp, sf.Node(), hist())
			}

			votedNodes[sf.Node().String()] = true
		}

		missing, found, err := w.box.MissingNodes(sp)
		if err != nil || !found {
			continue
		}

		seen := map[string]bool{}

		for _, a := range missing {
			switch {
			case !w.suf.Exists(a):
				r.Violation(t, "missing-not-in-suffrage", "MissingNodes(%v) reports %s which is not a suffrage node\n  history:\n    %s", sp, a, hist())
			case a.Equal(w.locals[w.localIdx].Address()):
				r.Violation(t, "missing-local", "MissingNodes(%v) reports the local node\n  history:\n    %s", sp, hist())
			case seen[a.String()]:
				r.Violation(t, "missing-duplicate", "MissingNodes(%v) reports %s twice\n  history:\n    %s", sp, a, hist())
			}

			seen[a.String()] = true
		}
	}
}

func c05ParsePoint(s string) (base.StagePoint, bool) {
	// the world only uses heights 32..36, rounds 0..2: find the stage point whose String() is s
	for h := int64(32); h <= 36; h++ {
		for r := uint64(0); r <= 2; r++ {
			for _, st := range []base.Stage{base.StageINIT, base.StageACCEPT} {
				sp := base.NewStagePoint(base.RawPoint(h, r), st)
				if sp.String() == s {
					return sp, true
				}
			}
		}
	}

	return base.StagePoint{}, false
}

func TestC05(t *testing.T) {
	r := ev.Start(t, "C05")
	defer r.Finish()
	r.Rule("the C04 state machine with longer histories over many stage points (ordinary and suffrage-confirm ballots, runs that reach majorities, SetLastPoint advances) so that cleanup runs " +
		"several times; after every step the record table (hook H1) must hold one live record object per key, stored under the key of the point it holds, never a released one; every release to the " +
		"record pool must be of a record that is neither still in the table nor already released; Voted/MissingNodes only speak about their own stage point; emitted voteproofs are judged as in C04. " +
		"non-trivial = history with >=2 counted voteproofs (>=2 cleanup cycles) and a suffrage-confirm ballot; distinct by history")
	r.Floor(15)
	r.Assume("ballots satisfy bl.IsValid(networkID)", "record identity = object address observed through the verif hook; pool re-use of an address for a new record is legitimate")

	r.Checks(120, 6000)
	r.Steps(50)

	r.ShrinkTime(20 * time.Second)

	rapid.Check(t, func(rt *rapid.T) {
		st := &c05State{}
		w, counted := bbMachine(rt, r, bbMachineOpts{maxN: 5, concurrent: false, checkC05: true}, st)

		hadSC := false

		for k := range w.offered {
			if k.SC {
				hadSC = true
			}
		}

		nontrivial := counted >= 2 && hadSC
		r.Case(strings.Join(w.history, ";"), nontrivial, fmt.Sprintf("sc:%v", hadSC), fmt.Sprintf("counted>=2:%v", counted >= 2))
		r.Class("pool_puts", int64(st.puts))

		if nontrivial && r.WantSample() {
			r.Sample(map[string]any{"n": w.n, "threshold": w.th.Float64(), "history": w.history, "counted_voteproofs": counted, "pool_puts": st.puts})
		}
	})
}
