package p_states

import (
	"fmt"
	"sort"
	"strings"
	"sync"
	"testing"
	"time"

	"github.com/pkg/errors"
	"github.com/spikeekips/mitum/base"
	"github.com/spikeekips/mitum/isaac"
	isaacdatabase "github.com/spikeekips/mitum/isaac/database"
	isaacstates "github.com/spikeekips/mitum/isaac/states"
	leveldbstorage "github.com/spikeekips/mitum/storage/leveldb"
	"pgregory.net/rapid"
	"verif/internal/ev"
	"verif/internal/gen"
)

// c08Gate wraps the real DefaultBallotBroadcaster: every mimic delivery is held right after its pool lookup
// (BallotBroadcaster.Ballot) until all deliveries of the phase arrived or a grace period elapsed, and then released in a
// drawn order. A corrected implementation that serialises lookup+sign+broadcast never brings all deliveries to the gate at
// once; the grace period then only costs time and never changes the verdict.
type c08Gate struct {
	inner    *isaacstates.DefaultBallotBroadcaster
	mu       sync.Mutex
	enabled  bool
	expected int
	arrived  int
	waiters  []chan struct{}
	order    []int
	grace    time.Duration
	held     int // deliveries that were actually inside the window together
}

func (g *c08Gate) Broadcast(bl base.Ballot) error { return g.inner.Broadcast(bl) }

func (g *c08Gate) Ballot(p base.Point, s base.Stage, sc bool) (base.Ballot, bool, error) {
	bl, found, err := g.inner.Ballot(p, s, sc)

	g.mu.Lock()
	if !g.enabled {
		g.mu.Unlock()

		return bl, found, err
	}

	ch := make(chan struct{})
	g.waiters = append(g.waiters, ch)
	g.arrived++

	if g.arrived >= g.expected {
		g.releaseLocked()
	}
	g.mu.Unlock()

	select {
	case <-ch:
	case <-time.After(g.grace):
		g.mu.Lock()
		g.releaseLocked()
		g.mu.Unlock()
		<-ch
	}

	return bl, found, err
}

// releaseLocked lets the waiters go one after another in the drawn order (a short pause between them so that the first
// one normally finishes sign+broadcast before the next continues; correctness of the verdict does not depend on it).
func (g *c08Gate) releaseLocked() {
	if len(g.waiters) < 1 {
		return
	}

	ws := g.waiters
	g.waiters = nil

	if len(ws) > g.held {
		g.held = len(ws)
	}

	idx := make([]int, len(ws))
	for i := range idx {
		idx[i] = i
	}

	sort.SliceStable(idx, func(a, b int) bool {
		oa, ob := 0, 0
		if idx[a] < len(g.order) {
			oa = g.order[idx[a]]
		}

		if idx[b] < len(g.order) {
			ob = g.order[idx[b]]
		}

		return oa < ob
	})

	go func() {
		for _, i := range idx {
			close(ws[i])
			time.Sleep(300 * time.Microsecond)
		}
	}()
}

// c08FaultPool is the real TempPool with an injected storage fault: the failAt-th SetBallot (1-based; 0 = never) fails.
type c08FaultPool struct {
	*isaacdatabase.TempPool
	mu     sync.Mutex
	calls  int
	failAt int
	failed int
}

func (p *c08FaultPool) SetBallot(bl base.Ballot) (bool, error) {
	p.mu.Lock()
	p.calls++
	fail := p.failAt > 0 && p.calls == p.failAt
	if fail {
		p.failed++
	}
	p.mu.Unlock()

	if fail {
		return false, errors.Errorf("verif: injected pool write fault")
	}

	return p.TempPool.SetBallot(bl)
}

type c08Sent struct {
	Point string
	SC    bool
	Fact  string
	Node  string
}

type c08World struct {
	w     *bbWorld // reused for ballot construction only (its box is not used)
	st    *isaacstates.States
	pool  *isaacdatabase.TempPool
	fpool *c08FaultPool
	gate  *c08Gate
	mimic func(base.Ballot)
	mu    sync.Mutex
	sent  []c08Sent
	local base.LocalNode
}

func newC08World(n int, state isaacstates.StateType, failAt int) (*c08World, error) {
	encs, enc := gen.Encoders()

	w := newBBWorld(n, 67, n) // the box's "local" is the foreign node: unused here
	local := gen.Local(40)    // the node under test; not one of the ballot senders

	pool, err := isaacdatabase.NewTempPool(leveldbstorage.NewMemStorage(), encs, enc, 0)
	if err != nil {
		return nil, err
	}

	c := &c08World{w: w, pool: pool, local: local}

	fpool := &c08FaultPool{TempPool: pool, failAt: failAt}
	c.fpool = fpool

	inner := isaacstates.NewDefaultBallotBroadcaster(local.Address(), fpool, func(bl base.Ballot) error {
		c.mu.Lock()
		c.sent = append(c.sent, c08Sent{
			Point: bl.Point().String(), SC: bbIsSC(bl.SignFact().Fact()),
			Fact: bl.SignFact().Fact().Hash().String(), Node: bl.SignFact().Node().String(),
		})
		c.mu.Unlock()

		return nil
	})
	c.gate = &c08Gate{inner: inner, grace: 30 * time.Millisecond}

	args := isaacstates.NewStatesArgs()
	args.AllowConsensus = true
	args.BallotBroadcaster = c.gate
	args.IsInSyncSourcePoolFunc = func(base.Address) bool { return true }
	args.IntervalBroadcastBallot = func() time.Duration { return time.Hour }

	st, err := isaacstates.NewStates(gen.NetworkID, local, args)
	if err != nil {
		return nil, err
	}

	st.VerifSetCurrent(&isaacstates.VerifStubHandler{S: state})
	c.st = st
	c.mimic = st.VerifMimicBallotFunc()

	return c, nil
}

func TestC08(t *testing.T) {
	r := ev.Start(t, "C08")
	defer r.Finish()
	r.Rule("a States in Syncing/Broken (stub current handler, hook H1) with consensus allowed and every sender a sync source; a real DefaultBallotBroadcaster over a real TempPool; " +
		"each case delivers 2..6 real IsValid ballots of 2..4 remote nodes concurrently to the mimic-ballot function (same stage point with different facts, same fact from different nodes, " +
		"different stage points, suffrage-confirm vs ordinary) in 1..3 phases; the harness gate holds each delivery right after its pool lookup and releases them in a drawn order; " +
		"optionally the local node also broadcasts a ballot of its own for one of the points, optionally one of the first pool writes fails (injected storage fault). Oracle: per (stage point, suffrage-confirm flag) the ballots signed by the local node that reached " +
		"the network function carry at most one fact, and the pool returns that one. non-trivial = >=2 deliveries for one stage point with different facts were inside the window together")
	r.Floor(20)
	r.Assume("the real consensus handlers are not booted: their check-pool-then-broadcast paths are represented by the direct Broadcast of a locally made ballot",
		"the gate's grace period (30 ms) only affects speed; a serialising implementation passes")

	r.Checks(100, 5000)
	r.ShrinkTime(20 * time.Second)

	rapid.Check(t, func(rt *rapid.T) {
		n := rapid.IntRange(3, 4).Draw(rt, "n")
		state := rapid.SampledFrom([]isaacstates.StateType{isaacstates.StateSyncing, isaacstates.StateSyncing, isaacstates.StateBroken}).Draw(rt, "state")

		// a storage fault at one of the first pool writes (mostly none)
		failAt := rapid.SampledFrom([]int{0, 0, 0, 1, 1, 2, 3}).Draw(rt, "poolFaultAt")

		c, err := newC08World(n, state, failAt)
		if err != nil {
			rt.Fatalf("world: %v", err)
		}

		defer c.pool.Close()

		phases := rapid.IntRange(1, 3).Draw(rt, "phases")

		var history []string

		conflictInWindow := false

		for ph := 0; ph < phases; ph++ {
			k := rapid.IntRange(2, 6).Draw(rt, "deliveries")
			descs := make([]bbBallotDesc, 0, k)

			// a focus point so that conflicts are common
			fh := int64(rapid.IntRange(33, 34).Draw(rt, "focusHeight"))
			fr := uint64(rapid.IntRange(0, 1).Draw(rt, "focusRound"))
			fstage := rapid.SampledFrom([]string{"init", "accept"}).Draw(rt, "focusStage")

			for i := 0; i < k; i++ {
				d := bbBallotDesc{Height: fh, Round: fr, ExpelBy: "full", Node: rapid.IntRange(0, n-1).Draw(rt, "node")}

				switch rapid.SampledFrom([]int{0, 1, 2, 3, 4, 5, 6, 6, 6, 7, 8, 9}).Draw(rt, "variant") {
				case 0, 1, 2:
					d.Kind = fstage
				case 3, 4, 5:
					d.Kind = fstage + "X"
				case 6:
					// suffrage-confirm ballots for the focus point, with two different facts
					d.Kind = rapid.SampledFrom([]string{"sc", "scX"}).Draw(rt, "scKind")
				case 7:
					d.Kind = map[string]string{"init": "initExpel", "accept": "acceptExpel"}[fstage]
				default:
					d.Height = int64(rapid.IntRange(33, 35).Draw(rt, "otherHeight"))
					d.Kind = rapid.SampledFrom([]string{"init", "accept", "initX"}).Draw(rt, "otherKind")
				}

				descs = append(descs, d)
			}

			var bls []base.Ballot

			var used []bbBallotDesc

			for _, d := range descs {
				if bl, ok := c.w.cachedBallot(d); ok {
					bls = append(bls, bl)
					used = append(used, d)
				}
			}

			if len(bls) < 1 {
				continue
			}

			order := make([]int, len(bls))
			for i := range order {
				order[i] = rapid.IntRange(0, 100).Draw(rt, "order")
			}

			var own base.Ballot

			if rapid.IntRange(0, 3).Draw(rt, "ownBroadcast") == 0 {
				// the local node's own ballot for the focus point with a third fact (what a consensus handler would do)
				f := isaac.NewINITBallotFact(bbPoint(fh, fr), bbBlock(fh-1), gen.H(fmt.Sprintf("own-proposal-%d-%d", fh, fr)), nil)

				var vp base.Voteproof
				if fr == 0 {
					vp = c.w.acceptVP(fh - 1)
				} else {
					vp = c.w.drawACCEPTVP(fh, fr-1)
				}

				own = isaac.NewINITBallot(vp, gen.SignINIT(f, c.local), nil)
			}

			c.gate.mu.Lock()
			c.gate.enabled, c.gate.expected, c.gate.arrived, c.gate.order, c.gate.held = true, len(bls), 0, order, 0
			c.gate.mu.Unlock()

			history = append(history, fmt.Sprintf("phase %d: deliver %v release-order %v own-broadcast=%v", ph, used, order, own != nil))

			var wg sync.WaitGroup

			for i := range bls {
				wg.Add(1)

				go func(bl base.Ballot) {
					defer wg.Done()

					c.mimic(bl)
				}(bls[i])
			}

			if own != nil {
				wg.Add(1)

				go func() {
					defer wg.Done()

					_ = c.gate.Broadcast(own)
				}()
			}

			wg.Wait()

			c.gate.mu.Lock()
			c.gate.enabled = false
			held := c.gate.held
			c.gate.mu.Unlock()

			// different facts for one (point, sc) among the deliveries that shared the window
			if held >= 2 {
				facts := map[string]map[string]bool{}

				for _, bl := range bls {
					k := fmt.Sprintf("%s/%v", bl.Point(), bbIsSC(bl.SignFact().Fact()))
					if facts[k] == nil {
						facts[k] = map[string]bool{}
					}

					facts[k][bl.SignFact().Fact().Hash().String()] = true
				}

				for _, fs := range facts {
					if len(fs) >= 2 {
						conflictInWindow = true
					}
				}
			}

			// ---- oracle after every phase
			c.mu.Lock()
			sent := append([]c08Sent(nil), c.sent...)
			c.mu.Unlock()

			byKey := map[string]map[string]bool{}

			for _, s := range sent {
				if s.Node != c.local.Address().String() {
					continue
				}

				k := fmt.Sprintf("%s/sc=%v", s.Point, s.SC)
				if byKey[k] == nil {
					byKey[k] = map[string]bool{}
				}

				byKey[k][s.Fact] = true
			}

			for k, fs := range byKey {
				if len(fs) > 1 {
					sig := "equivocation-mimic-race"
					if own != nil {
						sig = "equivocation-own-vs-mimic"
					}

					r.Violation(rt, sig, "the local node broadcast %d different ballot facts for %s: %v\n  history:\n    %s\n  broadcast log: %v",
						len(fs), k, bbSortedKeys(fs), strings.Join(history, "\n    "), sent)
				}
			}
		}

		r.Case(fmt.Sprintf("fault@%d;", failAt)+strings.Join(history, ";"), conflictInWindow, fmt.Sprintf("state:%s", state), fmt.Sprintf("conflictInWindow:%v", conflictInWindow),
			fmt.Sprintf("poolFaultHit:%v", c.fpool.failed > 0))

		if conflictInWindow && r.WantSample() {
			c.mu.Lock()
			r.Sample(map[string]any{"history": history, "broadcast_by_local": len(c.sent)})
			c.mu.Unlock()
		}
	})
}
