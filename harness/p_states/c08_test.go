package p_states

import (
	"fmt"
	"sort"
	"strings"
	"sync"
	"testing"
	"time"

	"github.com/pkg/errors"
	"github.com/spikeekips/mitum/base"
	"github.com/spikeekips/mitum/isaac"
	isaacdatabase "github.com/spikeekips/mitum/isaac/database"
	isaacstates "github.com/spikeekips/mitum/isaac/states"
	"github.com/spikeekips/mitum/launch"
	leveldbstorage "github.com/spikeekips/mitum/storage/leveldb"
	"github.com/spikeekips/mitum/util/encoder"
	jsonenc "github.com/spikeekips/mitum/util/encoder/json"
	"github.com/spikeekips/mitum/util/hint"
	goleveldbopt "github.com/syndtr/goleveldb/leveldb/opt"
	goleveldbstorage "github.com/syndtr/goleveldb/leveldb/storage"
	"pgregory.net/rapid"
	"verif/internal/ev"
	"verif/internal/gen"
)

// c08Gate wraps the real DefaultBallotBroadcaster: every mimic delivery is held right after its pool lookup
// (BallotBroadcaster.Ballot) until all deliveries of the phase arrived or a grace period elapsed, and then released in a
// drawn order. A corrected implementation that serialises lookup+sign+broadcast never brings all deliveries to the gate at
// once; the grace period then only costs time and never changes the verdict.
type c08Gate struct {
	inner    *isaacstates.DefaultBallotBroadcaster
	mu       sync.Mutex
	enabled  bool
	expected int
	arrived  int
	waiters  []chan struct{}
	order    []int
	grace    time.Duration
	held     int // deliveries that were actually inside the window together
}

func (g *c08Gate) Broadcast(bl base.Ballot) error { return g.inner.Broadcast(bl) }

func (g *c08Gate) Ballot(p base.Point, s base.Stage, sc bool) (base.Ballot, bool, error) {
	bl, found, err := g.inner.Ballot(p, s, sc)

	g.mu.Lock()
	if !g.enabled {
		g.mu.Unlock()

		return bl, found, err
	}

	ch := make(chan struct{})
	g.waiters = append(g.waiters, ch)
	g.arrived++

	if g.arrived >= g.expected {
		g.releaseLocked()
	}
	g.mu.Unlock()

	select {
	case <-ch:
	case <-time.After(g.grace):
		g.mu.Lock()
		g.releaseLocked()
		g.mu.Unlock()
		<-ch
	}

	return bl, found, err
}

// releaseLocked lets the waiters go one after another in the drawn order (a short pause between them so that the first
// one normally finishes sign+broadcast before the next continues; correctness of the verdict does not depend on it).
func (g *c08Gate) releaseLocked() {
	if len(g.waiters) < 1 {
		return
	}

	ws := g.waiters
	g.waiters = nil

	if len(ws) > g.held {
		g.held = len(ws)
	}

	idx := make([]int, len(ws))
	for i := range idx {
		idx[i] = i
	}

	sort.SliceStable(idx, func(a, b int) bool {
		oa, ob := 0, 0
		if idx[a] < len(g.order) {
			oa = g.order[idx[a]]
		}

		if idx[b] < len(g.order) {
			ob = g.order[idx[b]]
		}

		return oa < ob
	})

	go func() {
		for _, i := range idx {
			close(ws[i])
			time.Sleep(300 * time.Microsecond)
		}
	}()
}

// c08FaultPool is the real TempPool with an injected storage fault: the failAt-th SetBallot (1-based; 0 = never) fails.
type c08FaultPool struct {
	*isaacdatabase.TempPool
	mu     sync.Mutex
	calls  int
	failAt int
	failed int
}

func (p *c08FaultPool) SetBallot(bl base.Ballot) (bool, error) {
	p.mu.Lock()
	p.calls++
	fail := p.failAt > 0 && p.calls == p.failAt
	if fail {
		p.failed++
	}
	p.mu.Unlock()

	if fail {
		return false, errors.Errorf("verif: injected pool write fault")
	}

	return p.TempPool.SetBallot(bl)
}

type c08Sent struct {
	Point  string
	SC     bool
	Fact   string
	Node   string
	Height int64
	bl     base.Ballot // the ballot that reached the network function
}

func (s c08Sent) String() string {
	return fmt.Sprintf("{%s sc=%v fact=%s by %s}", s.Point, s.SC, s.Fact, s.Node)
}

// ---- encoder sets of a restarted node (version skew / roll back / missing hinter registration)

// c08HintGroups are the hinters a ballot record may need beyond the plain INIT/ACCEPT ballot types; action
// restartWithEncoders re-opens the pool with an encoder set that lacks a drawn subset of them.
var c08HintGroups = []struct {
	name  string
	hints []hint.Hint
}{
	{"empty-proposal-init-fact", []hint.Hint{isaac.EmptyProposalINITBallotFactHint}},
	{"empty-operations-accept-fact", []hint.Hint{isaac.EmptyOperationsACCEPTBallotFactHint}},
	{"not-processed-accept-fact", []hint.Hint{isaac.NotProcessedACCEPTBallotFactHint}},
	{"suffrage-confirm-fact", []hint.Hint{isaac.SuffrageConfirmBallotFactHint}},
	{"expel-operation", []hint.Hint{isaac.SuffrageExpelOperationHint, isaac.SuffrageExpelFactHint}},
	{"expel-voteproof", []hint.Hint{isaac.INITExpelVoteproofHint, isaac.ACCEPTExpelVoteproofHint}},
	{"stuck-voteproof", []hint.Hint{isaac.INITStuckVoteproofHint, isaac.ACCEPTStuckVoteproofHint}},
}

type c08EncSet struct {
	key  string // "" = the full set
	encs *encoder.Encoders
	enc  *jsonenc.Encoder
}

var (
	c08EncMu    sync.Mutex
	c08EncCache = map[string]*c08EncSet{}
)

// c08Encoders builds (once per subset) an encoder set with every launch hinter except the named groups; the empty subset
// is the full set a node normally runs with.
func c08Encoders(missing []string) *c08EncSet {
	sort.Strings(missing)
	key := strings.Join(missing, ",")

	c08EncMu.Lock()
	defer c08EncMu.Unlock()

	if es, ok := c08EncCache[key]; ok {
		return es
	}

	skip := map[hint.Type]bool{}

	for _, g := range c08HintGroups {
		for _, m := range missing {
			if m == g.name {
				for _, ht := range g.hints {
					skip[ht.Type()] = true
				}
			}
		}
	}

	enc := jsonenc.NewEncoder()
	encs := encoder.NewEncoders(enc, enc)

	all := append(append([]encoder.DecodeDetail(nil), launch.Hinters...), launch.SupportedProposalOperationFactHinters...)
	for _, d := range all {
		if skip[d.Hint.Type()] {
			continue
		}

		if err := encs.AddDetail(d); err != nil {
			panic(err)
		}
	}

	es := &c08EncSet{key: key, encs: encs, enc: enc}
	c08EncCache[key] = es

	return es
}

var (
	c08ReadMu    sync.Mutex
	c08ReadCache = map[string]bool{}
)

// readable: can a node running with this encoder set read the ballot from its encoded form (what the network layer
// does with an incoming ballot and what the pool does with a kept record)? Decided with the encoder alone, not with the pool.
func (es *c08EncSet) readable(bl base.Ballot) bool {
	k := es.key + "|" + fmt.Sprintf("%x", bl.HashBytes())

	if w, ok := bl.(base.HasExpels); ok {
		for _, op := range w.Expels() {
			k += "|" + op.Hash().String()
		}
	}

	c08ReadMu.Lock()
	v, found := c08ReadCache[k]
	c08ReadMu.Unlock()

	if found {
		return v
	}

	_, full := gen.Encoders()

	b, err := full.Marshal(bl)
	if err != nil {
		panic(err)
	}

	i, err := es.enc.Decode(b)
	_, isballot := i.(base.Ballot)
	v = err == nil && isballot

	c08ReadMu.Lock()
	c08ReadCache[k] = v
	c08ReadMu.Unlock()

	return v
}

// ---- ballots with the fact types the handlers use when there is no proposal / nothing to process

var (
	c08BallotMu    sync.Mutex
	c08BallotCache = map[string]bbCached{}
)

// ballot: bbWorld's kinds plus initEmpty (EmptyProposalINITBallotFact), acceptEmptyOps (EmptyOperationsACCEPTBallotFact)
// and acceptNotProcessed (NotProcessedACCEPTBallotFact). These facts carry a random component by construction, so they are
// made once per process and descriptor.
func (c *c08World) ballot(d bbBallotDesc) (base.Ballot, bool) {
	switch d.Kind {
	case "initEmpty", "acceptEmptyOps", "acceptNotProcessed":
	default:
		return c.w.cachedBallot(d)
	}

	k := fmt.Sprintf("%d|%+v", c.w.n, d)

	c08BallotMu.Lock()
	defer c08BallotMu.Unlock()

	if cb, found := c08BallotCache[k]; found {
		return cb.bl, cb.valid
	}

	node := c.w.locals[d.Node]
	point := bbPoint(d.Height, d.Round)
	proposal := gen.H(fmt.Sprintf("prop-%d-%d-0", d.Height, d.Round))

	var bl base.Ballot

	switch d.Kind {
	case "initEmpty":
		var vp base.Voteproof
		if d.Round == 0 {
			vp = c.w.acceptVP(d.Height - 1)
		} else {
			vp = c.w.drawACCEPTVP(d.Height, d.Round-1)
		}

		bl = isaac.NewINITBallot(vp, gen.SignINIT(isaac.NewEmptyProposalINITBallotFact(point, bbBlock(d.Height-1), proposal), node), nil)
	case "acceptEmptyOps":
		bl = isaac.NewACCEPTBallot(c.w.initVP(d.Height, d.Round), gen.SignACCEPT(isaac.NewEmptyOperationsACCEPTBallotFact(point, proposal), node), nil)
	default:
		bl = isaac.NewACCEPTBallot(c.w.initVP(d.Height, d.Round), gen.SignACCEPT(isaac.NewNotProcessedACCEPTBallotFact(point, proposal), node), nil)
	}

	cb := bbCached{bl: bl, valid: bl.IsValid(gen.NetworkID) == nil}
	c08BallotCache[k] = cb

	return cb.bl, cb.valid
}

func (s c08Sent) key() string { return fmt.Sprintf("%s/sc=%v", s.Point, s.SC) }

// c08KeepHeights is what the pool's periodic cleaner is specified to keep (TempPool defaults cleanRemovedBallotDeep =
// cleanRemovedProposalDeep = 3; the in-tree test "clean" expects the ballot of top-3 to go and the one of top to stay): the
// records of the newest height in the pool and of the two heights below it; everything at or below top-3 is removed.
const c08KeepHeights = 3

// cleanerTick is one round of the cleaner daemon of TempPool (hook H4), the same three steps in the same order as
// TempPool.startClean runs them every 33 minutes.
func (c *c08World) cleanerTick() (removed int, err error) {
	if _, err = c.pool.VerifCleanRemovedNewOperations(); err != nil {
		return 0, err
	}

	p, err := c.pool.VerifCleanProposals()
	if err != nil {
		return 0, err
	}

	b, err := c.pool.VerifCleanBallots()

	return p + b, err
}

// c08Tick remembers where in the broadcast log a cleaner round happened: [from,to] are the lengths of the log when the
// round started and when it was certainly over (equal for a round in a quiescent moment).
type c08Tick struct{ from, to int }

type c08World struct {
	w     *bbWorld // reused for ballot construction only (its box is not used)
	n     int
	state isaacstates.StateType
	str   goleveldbstorage.Storage // what is on "disk": survives restarts
	lst   *leveldbstorage.Storage
	es    *c08EncSet // the encoder set of the running incarnation
	st    *isaacstates.States
	pool  *isaacdatabase.TempPool
	fpool *c08FaultPool
	gate  *c08Gate
	mimic func(base.Ballot)
	mu    sync.Mutex
	sent  []c08Sent // the network: everything the local node ever broadcast, over all incarnations
	local base.LocalNode
	// lostAtRestart: keys (stage point, sc flag) whose kept record was in the pool when an incarnation ended and was absent
	// (not merely undecodable) right after the start-up sequence of the next one. Only used to name the root cause of an
	// equivocation (restart vs cleaner round); a lost record alone is not a violation of the statement.
	lostAtRestart map[string]bool
}

// keptKeys: for which of the stage points the local node ever broadcast a ballot does the running pool hold a record (a record
// the running encoder set cannot decode counts as held).
func (c *c08World) keptKeys() map[string]bool {
	c.mu.Lock()
	sent := append([]c08Sent(nil), c.sent...)
	c.mu.Unlock()

	kept := map[string]bool{}

	for _, s := range sent {
		if s.Node != c.local.Address().String() || kept[s.key()] {
			continue
		}

		sp := s.bl.Point()
		if _, found, err := c.pool.Ballot(sp.Point, sp.Stage(), s.SC); found || err != nil {
			kept[s.key()] = true
		}
	}

	return kept
}

func newC08World(n int, state isaacstates.StateType, failAt int) (*c08World, error) {
	c := &c08World{
		w:     newBBWorld(n, 67, n), // the box's "local" is the foreign node: unused here
		n:     n,
		state: state,
		str:   goleveldbstorage.NewMemStorage(),
		local: gen.Local(40), // the node under test; not one of the ballot senders
		fpool: &c08FaultPool{failAt: failAt},
	}

	if err := c.boot(c08Encoders(nil)); err != nil {
		return nil, err
	}

	return c, nil
}

// boot starts one incarnation of the node on the storage: leveldb, the real TempPool, the real DefaultBallotBroadcaster and a
// States in Syncing/Broken, all with the given encoder set. The database part follows launch.LoadDatabase step by step.
func (c *c08World) boot(es *c08EncSet) error {
	// small buffers: a case writes a handful of records, and opening with the default 4 MiB write buffer dominated the run time
	lst, err := leveldbstorage.NewStorage(c.str, &goleveldbopt.Options{WriteBuffer: 64 << 10, BlockCacheCapacity: 64 << 10})
	if err != nil {
		return err
	}

	// the start-up ORDER of launch.LoadDatabase on the one shared storage, with the same public helpers: permanent database,
	// Center, MergeAllPermanent, CleanSyncPool (drops what an interrupted sync left behind) and only then the TempPool. None of
	// these steps is specified to touch the pool's key space: what the pool kept before the restart must still be there.
	perm, err := isaacdatabase.NewLeveldbPermanent(lst, es.encs, es.enc, 0)
	if err != nil {
		_ = lst.Close()

		return errors.WithMessage(err, "start-up: permanent database")
	}

	center, err := isaacdatabase.NewCenter(lst, es.encs, es.enc, perm, func(h base.Height) (isaac.BlockWriteDatabase, error) {
		return isaacdatabase.NewLeveldbBlockWrite(h, lst, es.encs, es.enc), nil
	})
	if err != nil {
		_ = lst.Close()

		return errors.WithMessage(err, "start-up: center")
	}

	if err = center.MergeAllPermanent(); err != nil {
		_ = lst.Close()

		return errors.WithMessage(err, "start-up: merge all permanent")
	}

	if err = isaacdatabase.CleanSyncPool(lst); err != nil {
		_ = lst.Close()

		return errors.WithMessage(err, "start-up: clean sync pool")
	}

	pool, err := isaacdatabase.NewTempPool(lst, es.encs, es.enc, 0)
	if err != nil {
		_ = lst.Close()

		return err
	}

	c.lst, c.pool, c.es = lst, pool, es

	// the injected write fault counts pool writes over the whole history
	c.fpool = &c08FaultPool{TempPool: pool, failAt: c.fpool.failAt, calls: c.fpool.calls, failed: c.fpool.failed}

	inner := isaacstates.NewDefaultBallotBroadcaster(c.local.Address(), c.fpool, func(bl base.Ballot) error {
		c.mu.Lock()
		c.sent = append(c.sent, c08Sent{
			Point: bl.Point().String(), SC: bbIsSC(bl.SignFact().Fact()),
			Fact: bl.SignFact().Fact().Hash().String(), Node: bl.SignFact().Node().String(),
			Height: int64(bl.Point().Height()), bl: bl,
		})
		c.mu.Unlock()

		return nil
	})
	c.gate = &c08Gate{inner: inner, grace: 30 * time.Millisecond}

	args := isaacstates.NewStatesArgs()
	args.AllowConsensus = true
	args.BallotBroadcaster = c.gate
	args.IsInSyncSourcePoolFunc = func(base.Address) bool { return true }
	args.IntervalBroadcastBallot = func() time.Duration { return time.Hour }

	st, err := isaacstates.NewStates(gen.NetworkID, c.local, args)
	if err != nil {
		return err
	}

	st.VerifSetCurrent(&isaacstates.VerifStubHandler{S: c.state})
	c.st = st
	c.mimic = st.VerifMimicBallotFunc()

	return nil
}

func (c *c08World) shutdown() error {
	if err := c.pool.Close(); err != nil {
		return err
	}

	return c.lst.Close()
}

// restartWithEncoders: the node process ends in a quiescent moment (pool and leveldb closed) and a new one starts on the
// same storage with an encoder set that lacks the named hinter groups (none = plain restart).
func (c *c08World) restartWithEncoders(missing []string) error {
	before := c.keptKeys()

	if err := c.shutdown(); err != nil {
		return err
	}

	if err := c.boot(c08Encoders(missing)); err != nil {
		return err
	}

	after := c.keptKeys()

	for k := range before {
		if !after[k] {
			if c.lostAtRestart == nil {
				c.lostAtRestart = map[string]bool{}
			}

			c.lostAtRestart[k] = true
		}
	}

	return nil
}

func TestC08(t *testing.T) {
	r := ev.Start(t, "C08")
	defer r.Finish()
	r.Rule("a States in Syncing/Broken (stub current handler, hook H1) with consensus allowed and every sender a sync source; a real DefaultBallotBroadcaster over a real TempPool; " +
		"each case delivers 2..6 real IsValid ballots of 2..4 remote nodes concurrently to the mimic-ballot function (same stage point with different facts, same fact from different nodes, " +
		"different stage points, older heights, suffrage-confirm vs ordinary) in 1..3 phases (a later phase often returns to the still-open stage point of the previous one); the harness gate holds each delivery right after its pool lookup and releases them in a drawn order; " +
		"optionally the local node also broadcasts a ballot of its own for one of the points (first-made or re-made with another proposal), optionally one of the first pool writes fails (injected storage fault); " +
		"action cleanerTick (hook H4: one round of the pool's periodic cleaner daemon) runs between two phases or concurrently with the deliveries of a phase; " +
		"action restartWithEncoders between two phases: pool and leveldb are closed and a new incarnation is started on the same storage by the start-up sequence of launch.LoadDatabase in its order (leveldb, NewLeveldbPermanent, NewCenter, MergeAllPermanent, CleanSyncPool, NewTempPool; then DefaultBallotBroadcaster, States; the first incarnation starts the same way) with an encoder set that lacks a drawn subset of " +
		"the hinter groups a ballot record may need (empty-proposal / empty-operations / not-processed facts, suffrage-confirm fact, expel operation, expel voteproofs, stuck voteproofs; the empty subset is a plain restart); " +
		"after a restart only ballots the running encoder set can decode from their wire form are delivered; deliveries include ballots with EmptyProposalINIT / EmptyOperationsACCEPT / NotProcessedACCEPT facts. " +
		"Oracle: per (stage point, suffrage-confirm flag) the ballots signed by the local node that reached the network function over the whole history (all incarnations) carry at most one fact; a cleaner round starts a new epoch only for the stage points " +
		"at or below (newest height in the pool - 3), which the cleaner is specified to forget. non-trivial = >=2 deliveries for one stage point with different facts were inside the window together, or a different fact " +
		"was offered for a stage point inside the kept heights whose ballot was broadcast before a cleaner round, or a different fact was offered for a stage point whose ballot was broadcast by an earlier incarnation")
	r.Floor(20)
	r.Assume("the real consensus handlers are not booted: their check-pool-then-broadcast paths are represented by the direct Broadcast of a locally made ballot",
		"the gate's grace period (30 ms) only affects speed; a serialising implementation passes",
		"the cleaner daemon's 33 minute ticker is replaced by direct calls of its three steps (hook H4); the pool cleaner is specified to keep the newest 3 heights, so a stage point at or below newest-3 "+
			"is outside what the node can remember: a second fact there after a cleaner round is not asserted (the network finalised those heights long ago)",
		"a restart happens in a quiescent moment (no delivery in flight); a node whose encoder set cannot decode a ballot never gets it from the network layer, so such ballots are not delivered to it; "+
			"a kept record the running encoder set cannot decode still counts as kept: the fact it carries is on the network already")

	r.Checks(100, 5000)
	r.ShrinkTime(20 * time.Second)

	rapid.Check(t, func(rt *rapid.T) {
		n := rapid.IntRange(3, 4).Draw(rt, "n")
		state := rapid.SampledFrom([]isaacstates.StateType{isaacstates.StateSyncing, isaacstates.StateSyncing, isaacstates.StateBroken}).Draw(rt, "state")

		// a storage fault at one of the first pool writes (mostly none)
		failAt := rapid.SampledFrom([]int{0, 0, 0, 1, 1, 2, 3}).Draw(rt, "poolFaultAt")

		c, err := newC08World(n, state, failAt)
		if err != nil {
			rt.Fatalf("world: %v", err)
		}

		defer func() { _ = c.shutdown() }()

		phases := rapid.IntRange(1, 3).Draw(rt, "phases")

		var history []string

		conflictInWindow := false
		conflictAcrossTick := false
		conflictAcrossRestart := false
		conflictUnreadableKept := false
		ticksDone, tickRemoved := 0, 0
		restartsPlain, restartsSkew, undeliverable := 0, 0, 0

		var restartAt []int // lengths of the broadcast log at the restarts

		var (
			ticks    []c08Tick
			epoch    = map[string]int{}             // key -> index in the broadcast log where the current epoch of the key starts
			preTick  = map[string]map[string]bool{} // key inside the kept heights at a cleaner round -> facts broadcast before it
			fh       int64
			fr       uint64
			fstage   string
			ownMade  = map[string]bool{}
			localStr = c.local.Address().String()
		)

		snapshot := func() []c08Sent {
			c.mu.Lock()
			defer c.mu.Unlock()

			return append([]c08Sent(nil), c.sent...)
		}

		// afterTick: a cleaner round happened somewhere in sent[from:]; top is the newest height the local node ever put in
		// the pool (an upper bound of what the cleaner saw). Stage points at or below top-3 start a new epoch at the end of the
		// log; the others must still be remembered.
		afterTick := func(from int) {
			sent := snapshot()
			ticks = append(ticks, c08Tick{from: from, to: len(sent)})

			top := int64(-1)

			for _, s := range sent {
				if s.Node == localStr && s.Height > top {
					top = s.Height
				}
			}

			for i, s := range sent {
				switch {
				case s.Node != localStr:
				case s.Height <= top-c08KeepHeights:
					epoch[s.key()] = len(sent)
					delete(preTick, s.key())
				case i >= from: // possibly broadcast after the round
				default:
					if preTick[s.key()] == nil {
						preTick[s.key()] = map[string]bool{}
					}

					preTick[s.key()][s.Fact] = true
				}
			}
		}

		for ph := 0; ph < phases; ph++ {
			// ---- action cleanerTick: 0 none, 1 between the phases (quiescent), 2 concurrently with the deliveries of this phase
			tick := 0
			if ph > 0 {
				tick = rapid.SampledFrom([]int{0, 1, 1, 1, 2}).Draw(rt, "cleanerTick")
			} else {
				tick = rapid.SampledFrom([]int{0, 0, 0, 2}).Draw(rt, "cleanerTick")
			}

			// ---- action restartWithEncoders (between two phases): 0 none, 1 plain restart, 2 restart with a drawn subset of the hinter groups missing
			if ph > 0 {
				switch rapid.SampledFrom([]int{0, 0, 0, 1, 2, 2, 2, 2}).Draw(rt, "restart") {
				case 1:
					if err := c.restartWithEncoders(nil); err != nil {
						rt.Fatalf("restart: %v", err)
					}

					restartsPlain++
					restartAt = append(restartAt, len(snapshot()))
					history = append(history, "restartWithEncoders(missing=[])")
				case 2:
					var missing []string

					for _, g := range c08HintGroups {
						if rapid.Bool().Draw(rt, "missing:"+g.name) {
							missing = append(missing, g.name)
						}
					}

					if err := c.restartWithEncoders(missing); err != nil {
						rt.Fatalf("restart: %v", err)
					}

					if len(missing) > 0 {
						restartsSkew++
					} else {
						restartsPlain++
					}

					restartAt = append(restartAt, len(snapshot()))
					history = append(history, fmt.Sprintf("restartWithEncoders(missing=%v)", missing))
				}
			}

			if tick == 1 {
				removed, err := c.cleanerTick()
				if err != nil {
					rt.Fatalf("cleaner: %v", err)
				}

				ticksDone++
				tickRemoved += removed

				history = append(history, "cleanerTick")

				afterTick(len(snapshot()))
			}

			k := rapid.IntRange(2, 6).Draw(rt, "deliveries")
			descs := make([]bbBallotDesc, 0, k)

			// a focus point so that conflicts are common; a later phase mostly stays at the (still open) point of the previous one
			if ph == 0 || rapid.IntRange(0, 2).Draw(rt, "newFocus") == 0 {
				fh = int64(rapid.IntRange(33, 34).Draw(rt, "focusHeight"))
				fr = uint64(rapid.IntRange(0, 1).Draw(rt, "focusRound"))
				fstage = rapid.SampledFrom([]string{"init", "accept"}).Draw(rt, "focusStage")
			}

			for i := 0; i < k; i++ {
				d := bbBallotDesc{Height: fh, Round: fr, ExpelBy: "full", Node: rapid.IntRange(0, n-1).Draw(rt, "node")}

				switch rapid.SampledFrom([]int{0, 1, 2, 3, 4, 5, 6, 6, 6, 7, 7, 8, 9, 10, 11, 11}).Draw(rt, "variant") {
				case 0, 1, 2:
					d.Kind = fstage
				case 3, 4, 5:
					d.Kind = fstage + "X"
				case 6:
					// suffrage-confirm ballots for the focus point, with two different facts
					d.Kind = rapid.SampledFrom([]string{"sc", "scX"}).Draw(rt, "scKind")
				case 7:
					d.Kind = map[string]string{"init": "initExpel", "accept": "acceptExpel"}[fstage]
				case 11:
					// the fact types the handlers use when there is no proposal / nothing to process
					if fstage == "init" {
						d.Kind = "initEmpty"
					} else {
						d.Kind = rapid.SampledFrom([]string{"acceptEmptyOps", "acceptNotProcessed"}).Draw(rt, "emptyKind")
					}
				case 10:
					// a late ballot of an older height: around the edge of what the cleaner keeps
					d.Height = int64(rapid.SampledFrom([]int{29, 31, 32}).Draw(rt, "oldHeight"))
					d.Round = 0
					d.Kind = rapid.SampledFrom([]string{"init", "initX"}).Draw(rt, "oldKind")
				default:
					d.Height = int64(rapid.IntRange(33, 35).Draw(rt, "otherHeight"))
					d.Kind = rapid.SampledFrom([]string{"init", "accept", "initX"}).Draw(rt, "otherKind")
				}

				descs = append(descs, d)
			}

			var bls []base.Ballot

			var used []bbBallotDesc

			for _, d := range descs {
				bl, ok := c.ballot(d)
				if !ok {
					continue
				}

				// the network layer of this incarnation decodes an incoming ballot with its own encoder set
				if !c.es.readable(bl) {
					undeliverable++

					continue
				}

				bls = append(bls, bl)
				used = append(used, d)
			}

			if len(bls) < 1 {
				continue
			}

			order := make([]int, len(bls))
			for i := range order {
				order[i] = rapid.IntRange(0, 100).Draw(rt, "order")
			}

			var own base.Ballot

			ownLabel := ""

			if rapid.IntRange(0, 3).Draw(rt, "ownBroadcast") == 0 {
				// the local node's own ballot for the focus point with a third fact (what a consensus handler would do); when the
				// handler makes its ballot for the point once more it may come with another proposal (re-made)
				ownLabel = fmt.Sprintf("own-proposal-%d-%d", fh, fr)
				if ownMade[ownLabel] && rapid.Bool().Draw(rt, "ownRemade") {
					ownLabel += "-remade"
				}

				ownMade[fmt.Sprintf("own-proposal-%d-%d", fh, fr)] = true

				f := isaac.NewINITBallotFact(bbPoint(fh, fr), bbBlock(fh-1), gen.H(ownLabel), nil)

				var vp base.Voteproof
				if fr == 0 {
					vp = c.w.acceptVP(fh - 1)
				} else {
					vp = c.w.drawACCEPTVP(fh, fr-1)
				}

				own = isaac.NewINITBallot(vp, gen.SignINIT(f, c.local), nil)
			}

			// a different fact offered for a stage point inside the kept heights that was broadcast before a cleaner round
			offered := append([]base.Ballot(nil), bls...)
			if own != nil {
				offered = append(offered, own)
			}

			for _, bl := range offered {
				k := fmt.Sprintf("%s/sc=%v", bl.Point(), bbIsSC(bl.SignFact().Fact()))
				if fs := preTick[k]; len(fs) > 0 && !fs[bl.SignFact().Fact().Hash().String()] {
					conflictAcrossTick = true
				}
			}

			// a different fact offered for a stage point whose ballot was broadcast by an earlier incarnation (and is still to be
			// remembered); is the kept ballot one the running encoder set cannot read?
			if len(restartAt) > 0 {
				before := snapshot()
				last := restartAt[len(restartAt)-1]

				for _, bl := range offered {
					k := fmt.Sprintf("%s/sc=%v", bl.Point(), bbIsSC(bl.SignFact().Fact()))

					for i, s := range before {
						if i >= last || i < epoch[k] || s.Node != localStr || s.key() != k {
							continue
						}

						// the mimic path signs the fact of the incoming ballot (empty-proposal / empty-operations facts are re-made)
						if s.Fact != bl.SignFact().Fact().Hash().String() {
							conflictAcrossRestart = true

							if !c.es.readable(s.bl) {
								conflictUnreadableKept = true
							}
						}

						break
					}
				}
			}

			c.gate.mu.Lock()
			c.gate.enabled, c.gate.expected, c.gate.arrived, c.gate.order, c.gate.held = true, len(bls), 0, order, 0
			c.gate.mu.Unlock()

			history = append(history, fmt.Sprintf("phase %d: deliver %v release-order %v own-broadcast=%q concurrent-cleanerTick=%v", ph, used, order, ownLabel, tick == 2))

			phaseStart := len(snapshot())

			var wg sync.WaitGroup

			for i := range bls {
				wg.Add(1)

				go func(bl base.Ballot) {
					defer wg.Done()

					c.mimic(bl)
				}(bls[i])
			}

			if own != nil {
				wg.Add(1)

				go func() {
					defer wg.Done()

					_ = c.gate.Broadcast(own)
				}()
			}

			var (
				tickErr error
				tickN   int
			)

			if tick == 2 {
				wg.Add(1)

				go func() {
					defer wg.Done()

					tickN, tickErr = c.cleanerTick()
				}()
			}

			wg.Wait()

			if tickErr != nil {
				rt.Fatalf("cleaner: %v", tickErr)
			}

			if tick == 2 {
				ticksDone++
				tickRemoved += tickN

				// the round ran somewhere inside this phase: the old stage points are not asserted for this phase
				afterTick(phaseStart)
			}

			c.gate.mu.Lock()
			c.gate.enabled = false
			held := c.gate.held
			c.gate.mu.Unlock()

			// different facts for one (point, sc) among the deliveries that shared the window
			if held >= 2 {
				facts := map[string]map[string]bool{}

				for _, bl := range bls {
					k := fmt.Sprintf("%s/%v", bl.Point(), bbIsSC(bl.SignFact().Fact()))
					if facts[k] == nil {
						facts[k] = map[string]bool{}
					}

					facts[k][bl.SignFact().Fact().Hash().String()] = true
				}

				for _, fs := range facts {
					if len(fs) >= 2 {
						conflictInWindow = true
					}
				}
			}

			// ---- oracle after every phase
			sent := snapshot()

			byKey := map[string]map[string]bool{}
			first := map[string]int{} // key -> index of the first broadcast of the current epoch
			second := map[string]int{}

			for i, s := range sent {
				if s.Node != localStr {
					continue
				}

				k := s.key()
				if i < epoch[k] {
					continue
				}

				if byKey[k] == nil {
					byKey[k] = map[string]bool{}
					first[k] = i
				}

				if !byKey[k][s.Fact] && len(byKey[k]) == 1 {
					second[k] = i
				}

				byKey[k][s.Fact] = true
			}

			for _, k := range bbSortedKeys(byKey) {
				fs := byKey[k]
				if len(fs) < 2 {
					continue
				}

				sig := "equivocation-mimic-race"
				if own != nil {
					sig = "equivocation-own-vs-mimic"
				}

				// the first fact was on the network before a cleaner round started and the different one came after that: the node
				// forgot a ballot it has to remember (two facts out of one phase keep the race signatures)
				for _, tk := range ticks {
					if first[k] < tk.from && second[k] >= tk.from {
						sig = "equivocation-after-pool-clean"
					}
				}

				// the first fact was broadcast by an earlier incarnation of the node and the different one after a restart
				for _, at := range restartAt {
					if first[k] < at && second[k] >= at {
						// a cleaner round in between takes the blame unless the record was seen to vanish in the start-up itself
						if sig != "equivocation-after-pool-clean" || c.lostAtRestart[k] {
							sig = "equivocation-after-restart"
						}

						if !c.lostAtRestart[k] && !c.es.readable(sent[first[k]].bl) {
							sig = "equivocation-kept-ballot-unreadable-after-restart"
						}
					}
				}

				r.Violation(rt, sig, "the local node broadcast %d different ballot facts for %s: %v\n  history:\n    %s\n  broadcast log: %v",
					len(fs), k, bbSortedKeys(fs), strings.Join(history, "\n    "), sent)
			}
		}

		nontrivial := conflictInWindow || conflictAcrossTick || conflictAcrossRestart

		r.Case(fmt.Sprintf("fault@%d;", failAt)+strings.Join(history, ";"), nontrivial, fmt.Sprintf("state:%s", state), fmt.Sprintf("conflictInWindow:%v", conflictInWindow),
			fmt.Sprintf("conflictAcrossCleanerTick:%v", conflictAcrossTick), fmt.Sprintf("cleanerTicks:%d", ticksDone), fmt.Sprintf("cleanerRemovedSomething:%v", tickRemoved > 0),
			fmt.Sprintf("poolFaultHit:%v", c.fpool.failed > 0), fmt.Sprintf("restartsPlain:%d", restartsPlain), fmt.Sprintf("restartsWithMissingHinters:%d", restartsSkew),
			fmt.Sprintf("conflictAcrossRestart:%v", conflictAcrossRestart), fmt.Sprintf("conflictWithUnreadableKeptBallot:%v", conflictUnreadableKept),
			fmt.Sprintf("undeliverableSkipped:%v", undeliverable > 0))

		if nontrivial && r.WantSample() {
			c.mu.Lock()
			r.Sample(map[string]any{"history": history, "broadcast_by_local": len(c.sent)})
			c.mu.Unlock()
		}
	})
}
