package p_states

import (
	"context"
	"fmt"
	"runtime"
	"strings"
	"sync"
	"testing"
	"time"

	"github.com/pkg/errors"
	"github.com/spikeekips/mitum/base"
	"github.com/spikeekips/mitum/isaac"
	isaacstates "github.com/spikeekips/mitum/isaac/states"
	"pgregory.net/rapid"
	"verif/internal/ev"
	"verif/internal/gen"
)

type c09Event struct {
	Kind  string // enter, exit, report
	State isaacstates.StateType
	From  isaacstates.StateType // enter: state left; exit: n/a
	Next  isaacstates.StateType // exit: requested next
	Out   string                // ok, error, redirect:<state>, ignore
	Cur   isaacstates.StateType // report: Current() seen inside the callback
	Step  int
}

func (e c09Event) String() string {
	switch e.Kind {
	case "enter":
		return fmt.Sprintf("#%d enter %s (from %s) -> %s", e.Step, e.State, e.From, e.Out)
	case "exit":
		return fmt.Sprintf("#%d exit %s (next %s) -> %s", e.Step, e.State, e.Next, e.Out)
	default:
		return fmt.Sprintf("#%d report %s (Current()=%s)", e.Step, e.State, e.Cur)
	}
}

var c09States = []isaacstates.StateType{
	isaacstates.StateStopped, isaacstates.StateBooting, isaacstates.StateJoining, isaacstates.StateConsensus,
	isaacstates.StateSyncing, isaacstates.StateHandover, isaacstates.StateBroken,
}

type c09World struct {
	st        *isaacstates.States
	mu        sync.Mutex
	log       []c09Event
	history   []string
	step      int
	enterOut  map[isaacstates.StateType]string // programmed outcome of the next enter of a state: ok, error, redirect:<state>
	exitOut   map[isaacstates.StateType]string // ok, ignore, error
	vpSwitch  map[string]isaacstates.StateType // voteproof id -> next state requested by the current handler
	fence     base.Voteproof
	allow     bool
	allowLow  int // step since which consensus has been disallowed without interruption (-1 if currently allowed)
	baselineG int
	cancel    func()
}

func (w *c09World) record(e c09Event) {
	w.mu.Lock()
	e.Step = w.step
	w.log = append(w.log, e)
	w.mu.Unlock()
}

func newC09World(allow bool) (*c09World, error) {
	w := &c09World{
		enterOut: map[isaacstates.StateType]string{}, exitOut: map[isaacstates.StateType]string{},
		vpSwitch: map[string]isaacstates.StateType{}, allow: allow, allowLow: -1,
	}

	if !allow {
		w.allowLow = 0
	}

	args := isaacstates.NewStatesArgs()
	args.AllowConsensus = allow
	args.BallotBroadcaster = c09NopBroadcaster{}
	args.IntervalBroadcastBallot = func() time.Duration { return time.Hour }

	st, err := isaacstates.NewStates(gen.NetworkID, gen.Local(0), args)
	if err != nil {
		return nil, err
	}

	w.st = st

	st.SetWhenStateSwitched(func(s isaacstates.StateType) {
		w.record(c09Event{Kind: "report", State: s, Cur: st.Current()})
	})

	for _, s := range c09States {
		s := s
		h := &isaacstates.VerifStubHandler{S: s}
		h.OnEnter = func(from, _ isaacstates.StateType) error {
			w.mu.Lock()
			out := w.enterOut[s]
			delete(w.enterOut, s) // one-shot, so that redirect chains terminate
			w.mu.Unlock()

			if out == "" {
				out = "ok"
			}

			w.record(c09Event{Kind: "enter", State: s, From: from, Out: out})

			switch {
			case out == "error":
				return errors.Errorf("verif: enter %s fails", s)
			case strings.HasPrefix(out, "redirect:"):
				return isaacstates.NewVerifSwitchCtx(s, isaacstates.StateType(strings.TrimPrefix(out, "redirect:")))
			}

			return nil
		}
		h.OnExit = func(next isaacstates.StateType) error {
			w.mu.Lock()
			out := w.exitOut[s]
			delete(w.exitOut, s)
			w.mu.Unlock()

			if out == "" {
				out = "ok"
			}

			w.record(c09Event{Kind: "exit", State: s, Next: next, Out: out})

			switch out {
			case "error":
				return errors.Errorf("verif: exit %s fails", s)
			case "ignore":
				return isaacstates.ErrIgnoreSwitchingState.Errorf("verif: %s refuses to exit", s)
			}

			return nil
		}
		h.OnVoteproof = func(vp base.Voteproof) error {
			w.mu.Lock()
			next, found := w.vpSwitch[vp.ID()]
			delete(w.vpSwitch, vp.ID())
			w.mu.Unlock()

			if !found {
				return nil
			}

			return isaacstates.NewVerifSwitchCtx(s, next)
		}

		st.SetHandler(s, h)
	}

	ctx, cancel := context.WithCancel(context.Background())
	w.cancel = cancel

	if err := st.Start(ctx); err != nil {
		cancel()

		return nil, err
	}

	// baseline = goroutines of the running daemon once it idles (two equal readings 2 ms apart)
	prev := -1
	for i := 0; i < 200; i++ {
		time.Sleep(2 * time.Millisecond)

		n := runtime.NumGoroutine()
		if n == prev {
			break
		}

		prev = n
	}

	w.baselineG = prev

	return w, nil
}

func bbFenceFact() isaac.INITBallotFact { return bbFenceFactN(-1) }

func bbFenceFactN(i int) isaac.INITBallotFact {
	return isaac.NewINITBallotFact(base.RawPoint(33, 0), gen.H("fence-prev"), gen.H(fmt.Sprintf("fence-proposal-%d", i)), nil)
}

type c09NopBroadcaster struct{}

func (c09NopBroadcaster) Broadcast(base.Ballot) error { return nil }
func (c09NopBroadcaster) Ballot(base.Point, base.Stage, bool) (base.Ballot, bool, error) {
	return nil, false, nil
}

// quiesce: (1) wait until the request goroutines delivered their switch contexts, (2) pass a fence voteproof through the
// (sequential) switch loop. Only reduces schedule noise; verdicts are taken from the recorded log.
func (w *c09World) quiesce(extra int) bool {
	deadline := time.Now().Add(2 * time.Second)

	for runtime.NumGoroutine() > w.baselineG+extra {
		if time.Now().After(deadline) {
			break
		}

		time.Sleep(20 * time.Microsecond)
	}

	done := make(chan struct{})

	go func() {
		defer close(done)

		_ = w.st.VerifNewVoteproof(w.fenceVP())
	}()

	select {
	case <-done:
		return true
	case <-time.After(time.Second):
		return false // the switch loop has stopped (e.g. entered Stopped); nothing more will be processed
	}
}

func (w *c09World) fenceVP() base.Voteproof {
	if w.fence == nil {
		f := bbFenceFact()
		w.fence = gen.FullINITVoteproof(f, gen.Locals(1), 67, nil)
	}

	return w.fence
}

func (w *c09World) current() isaacstates.StateType { return w.st.Current() }

func (w *c09World) logCopy() []c09Event {
	w.mu.Lock()
	defer w.mu.Unlock()

	return append([]c09Event(nil), w.log...)
}

func TestC09(t *testing.T) {
	r := ev.Start(t, "C09")
	defer r.Finish()
	r.Rule("rapid state machine over a real isaacstates.States with stub handlers for all seven states (hook H1): AskMoveState(from = current or a stale state, next = any state), " +
		"SetAllowConsensus toggles, one-shot handler outcomes (enter: ok / error / redirect to another state; exit: ok / refuse with ErrIgnoreSwitchingState / error), voteproof-triggered switches, " +
		"Hold (forces Stopped), concurrent bursts of requests; the log of enter/exit/report calls is judged. non-trivial = history with a redirect/error outcome, a stale request, or a request " +
		"towards Joining/Consensus while consensus is disallowed; distinct by history")
	r.Floor(20)
	r.Assume("handlers are stubs (hook H1): handler-internal transitions of the real Booting/Joining/Consensus/Syncing/Handover handlers are not exercised",
		"no handover broker is installed, so the 'completing a handover' exception is never taken (Handover is never entered)")

	r.Checks(200, 6000)
	r.Steps(25)
	r.ShrinkTime(20 * time.Second)

	rapid.Check(t, func(rt *rapid.T) {
		allow := rapid.Bool().Draw(rt, "allowAtStart")

		w, err := newC09World(allow)
		if err != nil {
			rt.Fatalf("start states: %v", err)
		}

		defer func() {
			w.cancel()
			_ = w.st.Stop()
		}()

		w.quiesce(0)

		nontrivial := false
		stopped := false
		hist := func() string {
			var ss []string
			for _, e := range w.logCopy() {
				ss = append(ss, e.String())
			}

			return strings.Join(w.history, "\n    ") + "\n  log:\n    " + strings.Join(ss, "\n    ")
		}

		genState := rapid.SampledFrom(c09States)

		// judge everything logged during the step that just finished
		judge := func(stepFrom int, stale *[2]isaacstates.StateType, curBefore isaacstates.StateType, disallowedWholeStep bool) {
			log := w.logCopy()

			var last isaacstates.StateType // state the machine is in according to the log

			for i, e := range log {
				switch e.Kind {
				case "enter":
					if e.From == isaacstates.StateStopped && e.State != isaacstates.StateBooting && e.State != isaacstates.StateBroken {
						r.Violation(rt, "left-stopped-to-"+string(e.State), "the machine left Stopped for %s\n  history:\n    %s", e.State, hist())
					}

					if i > 0 && last != "" && e.From != last {
						r.Violation(rt, "enter-from-not-current", "%s: the state being left (%s) is not the state the machine was in (%s)\n  history:\n    %s", e, e.From, last, hist())
					}

					if e.Step >= stepFrom && disallowedWholeStep && e.From != isaacstates.StateHandover &&
						(e.State == isaacstates.StateJoining || e.State == isaacstates.StateConsensus) {
						r.Violation(rt, "entered-consensus-while-disallowed", "%s although consensus was not allowed during the whole step\n  history:\n    %s", e, hist())
					}

					if e.Out != "error" {
						last = e.State
					}
				case "exit":
					if last != "" && e.State != last {
						r.Violation(rt, "exit-of-not-current", "%s: exited handler is not the current one (%s)\n  history:\n    %s", e, last, hist())
					}
				case "report":
					if e.Cur != e.State {
						r.Violation(rt, "report-mismatch", "%s: the reported state is not the state the machine is in\n  history:\n    %s", e, hist())
					}

					if last != "" && e.State != last {
						r.Violation(rt, "report-not-entered", "%s: reported state was not the one entered last (%s)\n  history:\n    %s", e, last, hist())
					}
				}
			}

			if !stopped && last != "" && w.current() != last {
				r.Violation(rt, "current-mismatch", "Current()=%s but the last entered state is %s\n  history:\n    %s", w.current(), last, hist())
			}

			if stale != nil {
				for _, e := range log {
					if e.Step >= stepFrom && e.Kind != "report" {
						r.Violation(rt, "stale-request-had-effect", "request %s->%s was issued while the machine was in %s, yet %s happened\n  history:\n    %s",
							stale[0], stale[1], curBefore, e, hist())
					}
				}

				if w.current() != curBefore {
					r.Violation(rt, "stale-request-had-effect", "request %s->%s issued in state %s changed the state to %s\n  history:\n    %s", stale[0], stale[1], curBefore, w.current(), hist())
				}
			}
		}

		nextStep := func(desc string) int {
			w.mu.Lock()
			w.step++
			s := w.step
			w.mu.Unlock()
			w.history = append(w.history, fmt.Sprintf("#%d %s", s, desc))

			return s
		}

		rt.Repeat(map[string]func(*rapid.T){
			"ask": func(t *rapid.T) {
				if stopped {
					t.Skip("switch loop stopped")
				}

				cur := w.current()
				from := cur
				isStale := rapid.IntRange(0, 3).Draw(t, "stale") == 0

				if isStale {
					from = genState.Filter(func(s isaacstates.StateType) bool { return s != cur }).Draw(t, "from")
				}

				next := genState.Draw(t, "next")
				if next == isaacstates.StateStopped {
					t.Skip("a request for Stopped ends the switch loop; covered by hold")
				}

				s := nextStep(fmt.Sprintf("ask %s->%s (current %s, allow=%v)", from, next, cur, w.allow))
				disallowed := !w.allow

				if err := w.st.AskMoveState(isaacstates.NewVerifSwitchCtx(from, next)); err != nil {
					t.Fatalf("AskMoveState: %v", err)
				}

				if !w.quiesce(0) {
					stopped = true
				}

				var st *[2]isaacstates.StateType
				if isStale {
					st = &[2]isaacstates.StateType{from, next}
					nontrivial = true
				}

				if disallowed && (next == isaacstates.StateJoining || next == isaacstates.StateConsensus) {
					nontrivial = true
				}

				judge(s, st, cur, disallowed)
			},
			"program": func(t *rapid.T) {
				s := genState.Draw(t, "state")
				which := rapid.SampledFrom([]string{"enter:error", "enter:redirect", "exit:ignore", "exit:error"}).Draw(t, "outcome")

				to := genState.Filter(func(x isaacstates.StateType) bool { return x != s && x != isaacstates.StateStopped }).Draw(t, "to")

				w.mu.Lock() // no rapid draw while the lock is held: draws unwind by panicking
				switch which {
				case "enter:error":
					w.enterOut[s] = "error"
				case "enter:redirect":
					w.enterOut[s] = "redirect:" + string(to)
					which += ":" + string(to)
				case "exit:ignore":
					w.exitOut[s] = "ignore"
				default:
					w.exitOut[s] = "error"
				}
				w.mu.Unlock()

				nontrivial = true
				w.history = append(w.history, fmt.Sprintf("program %s %s", s, which))
			},
			"allow": func(t *rapid.T) {
				if stopped {
					t.Skip("switch loop stopped")
				}

				v := rapid.Bool().Draw(t, "allow")
				s := nextStep(fmt.Sprintf("SetAllowConsensus(%v)", v))
				w.st.SetAllowConsensus(v)
				w.allow = v

				if !w.quiesce(0) {
					stopped = true
				}

				judge(s, nil, "", false)
			},
			"voteproof": func(t *rapid.T) {
				if stopped {
					t.Skip("switch loop stopped")
				}

				next := genState.Filter(func(x isaacstates.StateType) bool { return x != isaacstates.StateStopped }).Draw(t, "next")
				vp := gen.FullINITVoteproof(bbFenceFactN(len(w.history)), gen.Locals(1), 67, nil)

				w.mu.Lock()
				w.vpSwitch[vp.ID()] = next
				w.mu.Unlock()

				cur := w.current()
				s := nextStep(fmt.Sprintf("voteproof makes the %s handler ask for %s (allow=%v)", cur, next, w.allow))
				disallowed := !w.allow

				done := make(chan struct{})

				go func() {
					defer close(done)

					_ = w.st.VerifNewVoteproof(vp)
				}()

				select {
				case <-done:
				case <-time.After(3 * time.Second):
					stopped = true
				}

				if !stopped && !w.quiesce(0) {
					stopped = true
				}

				if disallowed && (next == isaacstates.StateJoining || next == isaacstates.StateConsensus) {
					nontrivial = true
				}

				judge(s, nil, cur, disallowed)
			},
			"burst": func(t *rapid.T) {
				if stopped {
					t.Skip("switch loop stopped")
				}

				k := rapid.IntRange(2, 5).Draw(t, "k")
				reqs := make([][2]isaacstates.StateType, k)

				for i := range reqs {
					reqs[i] = [2]isaacstates.StateType{genState.Draw(t, "from"), genState.Filter(func(x isaacstates.StateType) bool { return x != isaacstates.StateStopped }).Draw(t, "next")}
				}

				s := nextStep(fmt.Sprintf("concurrent burst %v (allow=%v)", reqs, w.allow))
				disallowed := !w.allow

				var wg sync.WaitGroup

				for i := range reqs {
					wg.Add(1)

					go func(q [2]isaacstates.StateType) {
						defer wg.Done()

						_ = w.st.AskMoveState(isaacstates.NewVerifSwitchCtx(q[0], q[1]))
					}(reqs[i])
				}

				wg.Wait()

				if !w.quiesce(0) {
					stopped = true
				}

				judge(s, nil, "", disallowed)
			},
			"hold": func(t *rapid.T) {
				if stopped {
					t.Skip("switch loop stopped")
				}

				s := nextStep("Hold() (forces Stopped while the switch loop keeps running)")
				_ = w.st.Hold()

				if !w.quiesce(0) {
					stopped = true
				}

				nontrivial = true
				judge(s, nil, "", false)
			},
		})

		r.Case(strings.Join(w.history, ";"), nontrivial, fmt.Sprintf("allowAtStart:%v", allow), fmt.Sprintf("stopped:%v", stopped))

		if nontrivial && r.WantSample() {
			var ss []string
			for _, e := range w.logCopy() {
				ss = append(ss, e.String())
			}

			r.Sample(map[string]any{"history": w.history, "log": ss})
		}
	})
}
