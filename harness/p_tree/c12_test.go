package p_tree

import (
	"bytes"
	"fmt"
	"math/bits"
	"sort"
	"strings"
	"testing"
	"time"

	"github.com/spikeekips/mitum/util"
	"github.com/spikeekips/mitum/util/fixedtree"
	"github.com/spikeekips/mitum/util/hint"
	"github.com/spikeekips/mitum/util/valuehash"
	"pgregory.net/rapid"
	"verif/internal/ev"
)

// ---------------------------------------------------------------------------------------------
// reference model (shares no code with util/fixedtree): array-embedded binary tree, children of i are
// 2i+1 and 2i+2, hash(i) = SHA3-256(key_i || hash(left) || hash(right)), absent children contribute nothing.

type c12H = [32]byte

func c12Hash(key string, l, r []byte) c12H {
	b := make([]byte, 0, len(key)+len(l)+len(r))
	b = append(b, key...)
	b = append(b, l...)
	b = append(b, r...)

	return c12H(valuehash.NewSHA256(b)) // hash primitive (SHA3-256) is trusted; the tree structure is what is checked
}

func c12ModelHashes(keys []string) []c12H {
	n := len(keys)
	hs := make([]c12H, n)

	for i := n - 1; i >= 0; i-- {
		var l, r []byte
		if 2*i+1 < n {
			l = hs[2*i+1][:]
		}

		if 2*i+2 < n {
			r = hs[2*i+2][:]
		}

		hs[i] = c12Hash(keys[i], l, r)
	}

	return hs
}

// c12Height: level of index i (root = 0), integer arithmetic only.
func c12Height(i int) int { return bits.Len(uint(i+1)) - 1 }

// c12ModelValid: every node has a non-empty key and a hash that equals the hash over its key and its children.
func c12ModelValid(nodes []fixedtree.Node) bool {
	n := len(nodes)

	for i := 0; i < n; i++ {
		nd := nodes[i]
		if nd == nil || nd.IsEmpty() || len(nd.Key()) < 1 || nd.Hash() == nil {
			return false
		}

		var l, r []byte
		if 2*i+1 < n && nodes[2*i+1] != nil && nodes[2*i+1].Hash() != nil {
			l = nodes[2*i+1].Hash().Bytes()
		}

		if 2*i+2 < n && nodes[2*i+2] != nil && nodes[2*i+2].Hash() != nil {
			r = nodes[2*i+2].Hash().Bytes()
		}

		h := c12Hash(nd.Key(), l, r)
		if !bytes.Equal(h[:], nd.Hash().Bytes()) {
			return false
		}
	}

	return true
}

// c12ModelVerify is the reference proof verifier, used only to name the root cause of a wrongly accepted proof
// (the verdict itself never depends on it): 0 = the proof authenticates key; 1 = the node carrying the key does not
// hash over the pair below it but the other node of its pair does; 4 = neither does; 2 = the chain from that node to
// the last node is broken; 3 = malformed.
func c12ModelVerify(nodes []fixedtree.Node, key string) int {
	at := -1

	for i := range nodes {
		if nodes[i] != nil && !nodes[i].IsEmpty() && nodes[i].Key() == key {
			at = i

			break
		}
	}

	if at < 0 || len(nodes)%2 != 1 {
		return 3
	}

	hb := func(n fixedtree.Node) []byte {
		if n == nil || n.IsEmpty() || n.Hash() == nil {
			return nil
		}

		return n.Hash().Bytes()
	}

	var l, r []byte

	pair := at - at%2
	if at == len(nodes)-1 {
		pair = at
	}

	if pair >= 2 {
		l, r = hb(nodes[pair-2]), hb(nodes[pair-1])
	}

	h := c12Hash(key, l, r)
	if nodes[at].Hash() == nil || !bytes.Equal(h[:], nodes[at].Hash().Bytes()) {
		if at != len(nodes)-1 {
			if pn := nodes[at^1]; pn != nil && !pn.IsEmpty() && pn.Hash() != nil {
				if ph := c12Hash(pn.Key(), l, r); bytes.Equal(ph[:], pn.Hash().Bytes()) {
					return 1 // ... but the other node of its pair does
				}
			}
		}

		return 4
	}

	// upper levels: the pair must be hashed by a node of the next pair (either one: both are bound to the level above)
	for p := pair; p+2 < len(nodes); p += 2 {
		var parents []fixedtree.Node
		if p+4 <= len(nodes)-1 {
			parents = nodes[p+2 : p+4]
		} else {
			parents = nodes[p+2 : p+3]
		}

		ok := false

		for _, pn := range parents {
			if pn == nil || pn.IsEmpty() || pn.Hash() == nil {
				continue
			}

			h := c12Hash(pn.Key(), hb(nodes[p]), hb(nodes[p+1]))
			if bytes.Equal(h[:], pn.Hash().Bytes()) {
				ok = true
			}
		}

		if !ok {
			return 2
		}
	}

	return 0
}

func c12ForgerySig(nodes []fixedtree.Node, key string) string {
	switch c12ModelVerify(nodes, key) {
	case 1:
		return "prove-pair-partner-satisfies-key-check"
	case 4:
		return "prove-key-node-hash-unchecked"
	case 2:
		return "prove-broken-chain-accepted"
	default:
		return "prove-nonmember-accepted"
	}
}

// ---------------------------------------------------------------------------------------------
// deterministic key material derived from drawn seeds (rapid draws of 2000 strings would dominate the run time)

type c12Rng struct{ s uint64 }

func (r *c12Rng) next() uint64 {
	r.s += 0x9e3779b97f4a7c15
	z := r.s
	z = (z ^ (z >> 30)) * 0xbf58476d1ce4e5b9
	z = (z ^ (z >> 27)) * 0x94d049bb133111eb

	return z ^ (z >> 31)
}

func (r *c12Rng) intn(n int) int { return int(r.next() % uint64(n)) }

var c12Styles = []string{"b58", "short", "idx", "prefix", "bytes", "grow"}

func c12Keys(style string, seed uint64, n int) []string {
	rng := &c12Rng{s: seed}
	keys := make([]string, n)
	seen := make(map[string]struct{}, n)

	for i := 0; i < n; i++ {
		var k string

		switch style {
		case "b58": // what the real trees use: encoded 32-byte hashes
			b := make([]byte, 32)
			for j := 0; j < 32; j += 8 {
				v := rng.next()
				for x := 0; x < 8; x++ {
					b[j+x] = byte(v >> (8 * x))
				}
			}

			k = util.EncodeHash(b)
		case "short":
			l := 1 + rng.intn(3)
			for j := 0; j < l; j++ {
				k += string("ab"[rng.intn(2)])
			}
		case "idx":
			k = fmt.Sprintf("k%d", i)
		case "prefix":
			k = strings.Repeat("p", 60) + fmt.Sprintf("%04d", i)
		case "bytes":
			l := 1 + rng.intn(12)
			b := make([]byte, l)
			for j := range b {
				b[j] = byte(rng.next())
			}

			k = string(b)
		default: // grow: keys that are prefixes of each other
			k = strings.Repeat("a", i%40+1)
		}

		if _, dup := seen[k]; dup {
			k = fmt.Sprintf("%s#%d", k, i)
		}

		seen[k] = struct{}{}
		keys[i] = k
	}

	return keys
}

var c12Hint = hint.MustNewHint("test-tree-v0.0.1")

type c12T struct {
	keys   []string
	hs     []c12H
	keyset map[string]struct{}
	tr     fixedtree.Tree
}

func (c *c12T) fresh(tag string) string {
	for i := 0; ; i++ {
		k := fmt.Sprintf("FORGED-%s-%d", tag, i)
		if _, found := c.keyset[k]; !found {
			return k
		}
	}
}

// c12Build builds the tree with the production writer. order: 0 ascending, 1 descending, 2 evens then odds;
// viaWrite: collect the nodes through Writer.Write's callback and assemble with NewTree (the block writer path).
func c12Build(t ev.TB, keys []string, order int, viaWrite bool) (fixedtree.Tree, error) {
	n := len(keys)

	w, err := fixedtree.NewWriter(c12Hint, uint64(n))
	if err != nil {
		return fixedtree.Tree{}, err
	}

	idx := make([]int, 0, n)

	switch order {
	case 1:
		for i := n - 1; i >= 0; i-- {
			idx = append(idx, i)
		}
	case 2:
		for i := 0; i < n; i += 2 {
			idx = append(idx, i)
		}

		for i := 1; i < n; i += 2 {
			idx = append(idx, i)
		}
	default:
		for i := 0; i < n; i++ {
			idx = append(idx, i)
		}
	}

	for _, i := range idx {
		if err := w.Add(uint64(i), fixedtree.NewBaseNode(keys[i])); err != nil {
			return fixedtree.Tree{}, err
		}
	}

	if !viaWrite {
		return w.Tree()
	}

	nodes := make([]fixedtree.Node, n)
	if err := w.Write(func(i uint64, nd fixedtree.Node) error {
		nodes[i] = nd

		return nil
	}); err != nil {
		return fixedtree.Tree{}, err
	}

	return fixedtree.NewTree(c12Hint, nodes)
}

func c12New(t ev.TB, r *ev.Rec, keys []string, order int, viaWrite bool, what string) *c12T {
	c := &c12T{keys: keys, hs: c12ModelHashes(keys), keyset: make(map[string]struct{}, len(keys))}
	for _, k := range keys {
		c.keyset[k] = struct{}{}
	}

	tr, err := c12Build(t, keys, order, viaWrite)
	if err != nil {
		r.Violation(t, "writer-failed", "%s: building the tree failed: %v", what, err)

		return nil
	}

	c.tr = tr

	// (a) the production tree is the specified commitment
	if tr.Len() != len(keys) {
		r.Violation(t, "writer-node-count", "%s: tree has %d nodes, %d were added", what, tr.Len(), len(keys))

		return nil
	}

	for i := range keys {
		nd := tr.Node(uint64(i))
		if nd == nil || nd.Key() != keys[i] || nd.Hash() == nil || !bytes.Equal(nd.Hash().Bytes(), c.hs[i][:]) {
			r.Violation(t, "node-hash-differs-from-spec", "%s: node %d (key %q) has hash %v, the specified hash over key and children is %x",
				what, i, keys[i], nd.Hash(), c.hs[i][:6])

			return nil
		}
	}

	if !bytes.Equal(tr.Root().Bytes(), c.hs[0][:]) {
		r.Violation(t, "root-differs-from-spec", "%s: Root() != specified root", what)

		return nil
	}

	if err := tr.IsValid(nil); err != nil {
		r.Violation(t, "valid-tree-rejected", "%s: Tree.IsValid rejects a writer-built tree: %v", what, err)

		return nil
	}

	return c
}

// ---------------------------------------------------------------------------------------------
// tree mutations

var c12TreeKinds = []string{"key-fresh", "key-suffix", "key-other", "hash-flip", "hash-other", "hash-trunc", "swap-with-sibling"}

func c12MutHash(old util.Hash, kind string, other c12H, bit int) util.Hash {
	b := append([]byte(nil), old.Bytes()...)

	switch kind {
	case "hash-flip":
		b[(bit/8)%len(b)] ^= 1 << (bit % 8)

		return valuehash.NewBytes(b)
	case "hash-other":
		return valuehash.L32(other)
	default: // hash-trunc
		return valuehash.NewBytes(b[:len(b)-1])
	}
}

// c12TreeMutation applies one mutation at node i; returns nil when it does not apply / is a no-op.
func (c *c12T) treeMutation(i int, kind string, aux int) []fixedtree.Node {
	n := len(c.keys)
	nodes := append([]fixedtree.Node(nil), c.tr.Nodes()...)
	old := nodes[i]

	switch kind {
	case "key-fresh":
		nodes[i] = fixedtree.NewBaseNode(c.fresh("t")).SetHash(old.Hash())
	case "key-suffix":
		k := old.Key() + "x"
		nodes[i] = fixedtree.NewBaseNode(k).SetHash(old.Hash())
	case "key-other":
		j := aux % n
		if j == i {
			return nil
		}

		nodes[i] = fixedtree.NewBaseNode(c.keys[j]).SetHash(old.Hash())
	case "hash-flip", "hash-trunc":
		nodes[i] = fixedtree.NewBaseNode(old.Key()).SetHash(c12MutHash(old.Hash(), kind, c12H{}, aux))
	case "hash-other":
		j := aux % n
		if j == i {
			return nil
		}

		nodes[i] = fixedtree.NewBaseNode(old.Key()).SetHash(c12MutHash(old.Hash(), kind, c.hs[j], 0))
	case "swap-with-sibling":
		if i == 0 {
			return nil
		}

		j := i + 1
		if i%2 == 0 {
			j = i - 1
		}

		if j >= n {
			return nil
		}

		nodes[i], nodes[j] = nodes[j], nodes[i]
	}

	return nodes
}

func (c *c12T) checkTreeMutation(t ev.TB, r *ev.Rec, what string, i int, kind string, aux int) bool {
	nodes := c.treeMutation(i, kind, aux)
	if nodes == nil {
		return false
	}

	if c12ModelValid(nodes) {
		t.Fatalf("harness: tree mutation %s@%d left the tree valid by the reference (%s)", kind, i, what)
	}

	tr, err := fixedtree.NewTree(c12Hint, nodes)
	if err != nil {
		return true // refused even earlier
	}

	if err := tr.IsValid(nil); err == nil {
		r.Violation(t, "invalid-tree-accepted", "%s: tree with mutation %s at node %d/%d (key %q) passes Tree.IsValid",
			what, kind, i, len(nodes), c.keys[i])
	}

	r.Class("treemut:"+kind, 1)

	return true
}

// structural mutations of the node array: the children of some node change although no node is edited
func (c *c12T) checkStructural(t ev.TB, r *ev.Rec, what string) {
	n := len(c.keys)

	if n >= 2 {
		nodes := append([]fixedtree.Node(nil), c.tr.Nodes()[:n-1]...)
		if tr, err := fixedtree.NewTree(c12Hint, nodes); err == nil && !c12ModelValid(nodes) && tr.IsValid(nil) == nil {
			r.Violation(t, "invalid-tree-accepted", "%s: tree with its last node dropped (%d -> %d nodes) passes Tree.IsValid", what, n, n-1)
		}

		r.Class("treemut:drop-last", 1)
	}

	leafKey := c.fresh("leaf")
	lh := c12Hash(leafKey, nil, nil)
	nodes := append(append([]fixedtree.Node(nil), c.tr.Nodes()...), fixedtree.NewBaseNode(leafKey).SetHash(valuehash.L32(lh)))

	if tr, err := fixedtree.NewTree(c12Hint, nodes); err == nil && !c12ModelValid(nodes) && tr.IsValid(nil) == nil {
		r.Violation(t, "invalid-tree-accepted", "%s: tree with one self-consistent leaf appended (%d -> %d nodes) passes Tree.IsValid", what, n, n+1)
	}

	r.Class("treemut:append-leaf", 1)
}

// root changes whenever a key changes (tree rebuilt by the writer with one key replaced)
func (c *c12T) checkRekeyRoot(t ev.TB, r *ev.Rec, what string, i int, newkey string) *c12T {
	keys := append([]string(nil), c.keys...)
	keys[i] = newkey

	tr, err := c12Build(t, keys, 0, false)
	if err != nil {
		r.Violation(t, "writer-failed", "%s: rebuilding with key %d replaced failed: %v", what, i, err)

		return nil
	}

	if tr.Root().Equal(c.tr.Root()) {
		r.Violation(t, "root-unchanged-after-key-change", "%s: replacing key %d (%q -> %q) leaves the root %v unchanged", what, i, c.keys[i], newkey, tr.Root())
	}

	r.Class("rekey-root", 1)

	// the same edit made on nodes that already carry hashes: the tree is rebuilt through a new Writer from Tree.Node(i)
	// (hashed) with only node i replaced. The writer has to commit to the new key all the same.
	for _, carry := range []bool{false, true} {
		w, err := fixedtree.NewWriter(c12Hint, uint64(len(keys)))
		if err != nil {
			t.Fatalf("writer: %v", err)
		}

		for j := range keys {
			var nd fixedtree.Node = c.tr.Node(uint64(j))

			if j == i {
				nn := fixedtree.NewBaseNode(newkey)
				if carry {
					nd = nn.SetHash(c.tr.Node(uint64(j)).Hash())
				} else {
					nd = nn
				}
			}

			if err := w.Add(uint64(j), nd); err != nil {
				r.Violation(t, "writer-failed", "%s: re-adding hashed node %d failed: %v", what, j, err)

				return nil
			}
		}

		tr2, err := w.Tree()
		if err != nil {
			r.Violation(t, "writer-failed", "%s: rebuilding from hashed nodes with key %d replaced failed: %v", what, i, err)

			return nil
		}

		want := c12ModelHashes(keys)

		switch {
		case tr2.Root().Equal(c.tr.Root()):
			r.Violation(t, "root-unchanged-after-key-change-rehashed-nodes", "%s: a tree rebuilt from already hashed nodes with key %d replaced (%q -> %q, carried hash: %v) keeps the old root %v",
				what, i, c.keys[i], newkey, carry, tr2.Root())
		case !bytes.Equal(tr2.Root().Bytes(), want[0][:]):
			r.Violation(t, "root-differs-from-spec-rehashed-nodes", "%s: a tree rebuilt from already hashed nodes with key %d replaced has a root that is not the specified one", what, i)
		case tr2.IsValid(nil) != nil:
			r.Violation(t, "valid-tree-rejected", "%s: a tree rebuilt from already hashed nodes is rejected: %v", what, tr2.IsValid(nil))
		}

		r.Class("rekey-root-rehashed", 1)
	}

	b := &c12T{keys: keys, hs: c12ModelHashes(keys), keyset: map[string]struct{}{}, tr: tr}
	for _, k := range keys {
		b.keyset[k] = struct{}{}
	}

	if !bytes.Equal(tr.Root().Bytes(), b.hs[0][:]) {
		r.Violation(t, "root-differs-from-spec", "%s: rebuilt tree root != specified root", what)

		return nil
	}

	return b
}

// ---------------------------------------------------------------------------------------------
// proofs

// protocol of the real callers (isaac/block.SuffrageProof): IsValid first, Prove only afterwards
func c12Accepted(p fixedtree.Proof, key string) bool {
	if err := p.IsValid(nil); err != nil {
		return false
	}

	return p.Prove(key) == nil
}

// c12ProofIndex: tree index expected at each position of the proof for the node at tree index idx (-1 = empty node).
func c12ProofIndex(n, idx int) (pos []int, roles []string) {
	h := c12Height(idx)
	pos = make([]int, 2*(h+1)+1)
	roles = make([]string, len(pos))

	at := func(i int) int {
		if i >= n {
			return -1
		}

		return i
	}

	a := idx   // a_m: the m-th ancestor of idx
	prev := -1 // a_(m-1)

	for m := 0; m <= h; m++ {
		pos[2*m], pos[2*m+1] = at(2*a+1), at(2*a+2)

		for k := 0; k < 2; k++ {
			switch {
			case m == 0:
				roles[2*m+k] = "child"
			case pos[2*m+k] == prev && m == 1:
				roles[2*m+k] = "target"
			case pos[2*m+k] == prev:
				roles[2*m+k] = "ancestor"
			case m == 1:
				roles[2*m+k] = "sibling"
			default:
				roles[2*m+k] = "uncle"
			}
		}

		prev = a
		if a > 0 {
			a = (a - 1) / 2
		}
	}

	pos[len(pos)-1] = 0
	roles[len(roles)-1] = "root"

	if h == 0 {
		roles[len(roles)-1] = "target"
	}

	return pos, roles
}

var c12ProofKinds = []string{"key-fresh", "key-suffix", "hash-flip", "hash-other", "hash-trunc"}

type c12Stats struct {
	proofs, muts, splices, offpath int
}

// checkProof: (b) the genuine proof verifies; (c) single-field mutations; (d) no key outside the tree proves under the genuine root.
// positions: nil = every position; kinds by name; aux feeds bit / other-node choices deterministically.
func (c *c12T) checkProof(t ev.TB, r *ev.Rec, what string, idx int, allMut bool, rng *c12Rng, st *c12Stats) {
	n := len(c.keys)
	key := c.keys[idx]

	p, err := c.tr.Proof(key)
	if err != nil {
		r.Violation(t, "proof-extract-failed", "%s: Tree.Proof(%q) (node %d/%d) failed: %v", what, key, idx, n, err)

		return
	}

	if err := p.IsValid(nil); err != nil {
		r.Violation(t, "genuine-proof-invalid", "%s: proof of node %d/%d (key %q) fails Proof.IsValid: %v", what, idx, n, key, err)

		return
	}

	if err := p.Prove(key); err != nil {
		r.Violation(t, "genuine-proof-rejected", "%s: proof of node %d/%d (key %q) fails Prove: %v", what, idx, n, key, err)

		return
	}

	st.proofs++

	pn := p.Nodes()
	pos, roles := c12ProofIndex(n, idx)

	if len(pn) != len(pos) {
		t.Fatalf("harness: proof of node %d/%d has %d nodes, layout assumed %d", idx, n, len(pn), len(pos))
	}

	for j := range pn {
		switch {
		case pos[j] < 0:
			if pn[j] == nil || !pn[j].IsEmpty() {
				t.Fatalf("harness: proof of node %d/%d position %d: assumed an empty node", idx, n, j)
			}
		case pn[j] == nil || pn[j].Key() != c.keys[pos[j]] || !bytes.Equal(pn[j].Hash().Bytes(), c.hs[pos[j]][:]):
			t.Fatalf("harness: proof of node %d/%d position %d: assumed tree node %d", idx, n, j, pos[j])
		}
	}

	// a key that is not in the tree must not prove with the untouched proof either
	if x := c.fresh("none"); c12Accepted(p, x) {
		r.Violation(t, "prove-nonmember-accepted", "%s: genuine proof of node %d/%d proves the absent key %q", what, idx, n, x)
	}

	for j := range pn {
		if pos[j] < 0 {
			continue
		}

		for _, kind := range c12ProofKinds {
			if !allMut && rng.intn(3) != 0 {
				continue
			}

			old := pn[j]
			nodes := append([]fixedtree.Node(nil), pn...)
			newkey := ""

			switch kind {
			case "key-fresh":
				newkey = c.fresh("p")
				nodes[j] = fixedtree.NewBaseNode(newkey).SetHash(old.Hash())
			case "key-suffix":
				newkey = old.Key() + "x"
				if _, found := c.keyset[newkey]; found {
					continue
				}

				nodes[j] = fixedtree.NewBaseNode(newkey).SetHash(old.Hash())
			case "hash-other":
				o := rng.intn(n)
				if o == pos[j] {
					continue
				}

				nodes[j] = fixedtree.NewBaseNode(old.Key()).SetHash(c12MutHash(old.Hash(), kind, c.hs[o], 0))
			default:
				nodes[j] = fixedtree.NewBaseNode(old.Key()).SetHash(c12MutHash(old.Hash(), kind, c12H{}, rng.intn(256)))
			}

			mp := fixedtree.NewProof(nodes)
			accOrig := c12Accepted(mp, key)
			st.muts++
			r.Class("proofmut:"+roles[j]+":"+kind[:strings.Index(kind, "-")], 1)

			desc := fmt.Sprintf("%s: proof of node %d/%d (key %q), position %d (%s, tree node %d) mutated by %s", what, idx, n, key, j, roles[j], pos[j], kind)

			switch {
			case newkey == "": // hash mutation: every hash in a proof is on the authenticated path
				if accOrig {
					r.Violation(t, "proof-hash-mutation-accepted", "%s: IsValid and Prove(%q) still succeed", desc, key)
				}
			case roles[j] == "target" || roles[j] == "ancestor" || roles[j] == "root":
				if accOrig {
					r.Violation(t, "proof-path-key-mutation-accepted", "%s: IsValid and Prove(%q) still succeed", desc, key)
				}
			default:
				// key of a node that is only represented by its hash on the path (child / sibling / uncle): no Merkle
				// path can authenticate it for the original key; judged through (d) below
				if accOrig {
					st.offpath++
				}
			}

			if newkey != "" && bytes.Equal(nodes[len(nodes)-1].Hash().Bytes(), c.hs[0][:]) && c12Accepted(mp, newkey) {
				sig := c12ForgerySig(nodes, newkey)

				r.Violation(t, sig, "%s -> %q: the forged proof passes IsValid and Prove(%q) under the genuine root although %q is not a key of the tree",
					desc, newkey, newkey, newkey)
			}
		}
	}
}

// checkSplice: (d) forged proofs assembled from the proof of a re-keyed twin tree B (= this tree with key idx replaced by x)
// and the genuine upper path; the last node is always the genuine root.
func (c *c12T) checkSplice(t ev.TB, r *ev.Rec, what string, idx int, b *c12T, st *c12Stats) {
	if idx == 0 || b == nil {
		return
	}

	x := b.keys[idx]

	pa, err := c.tr.Proof(c.keys[idx])
	if err != nil {
		return // reported by checkProof
	}

	pb, err := b.tr.Proof(x)
	if err != nil {
		r.Violation(t, "proof-extract-failed", "%s: Tree.Proof(%q) on the re-keyed twin failed: %v", what, x, err)

		return
	}

	an, bn := pa.Nodes(), pb.Nodes()
	if len(an) != len(bn) {
		t.Fatalf("harness: twin proofs differ in length")
	}

	if !c12Accepted(pb, x) {
		r.Violation(t, "genuine-proof-rejected", "%s: proof of %q in the re-keyed twin tree is rejected", what, x)

		return
	}

	h := c12Height(idx)

	for m := 1; m <= h+1; m++ { // first m pairs from B, the rest (always including the root) from A
		nodes := append(append([]fixedtree.Node(nil), bn[:2*m]...), an[2*m:]...)
		fp := fixedtree.NewProof(nodes)
		st.splices++
		r.Class("splice", 1)

		if c12Accepted(fp, x) {
			sig := c12ForgerySig(nodes, x)

			r.Violation(t, sig, "%s: spliced proof (lowest %d of %d pairs from the twin tree in which node %d is re-keyed to %q, rest and root genuine) "+
				"passes IsValid and Prove(%q) although %q is not a key of the tree", what, m, h+1, idx, x, x, x)
		}
	}
}

func c12NonFull(n int) bool { return (n+1)&n != 0 } // n+1 is not a power of two

// ---------------------------------------------------------------------------------------------

func TestC12(t *testing.T) {
	r := ev.Start(t, "C12")
	defer r.Finish()
	r.Rule("trees of 1..2000 nodes (sizes 1..16, 2^k-1/2^k/2^k+1, uniform) built with fixedtree.Writer (Tree() or Write()+NewTree, 3 insertion orders) " +
		"from unique keys in 6 styles (base58 hashes, 1-3 letter, indexed, long common prefix, raw bytes, prefixes of each other); " +
		"compared node by node with a reference recomputation; every key's proof for n<=64, ~14 drawn targets above (root, last node, its parent, first leaf, ...); " +
		"single mutations of tree nodes (key fresh/suffix/other node's key, hash bit flip/other node's hash/truncated, sibling swap, drop last, append leaf), " +
		"of proof nodes (key, hash; every position) and spliced proofs from a re-keyed twin tree under the genuine root; all of them for every tree of 1..16 nodes. " +
		"non-trivial: tree whose last level is not full with a target that is not the root; distinct by (size, key style, seed, build path)")
	r.Floor(int64(r.N(120, 2000)))
	r.Assume("SHA3-256 (valuehash.NewSHA256) is collision and second-preimage resistant",
		"callers run Proof.IsValid before Proof.Prove (SuffrageProof: 'Prove should be called after IsValid()'); accepted = both succeed",
		"the key of a node that enters the path only through its hash (child, sibling, uncle) cannot be authenticated for the original key by any Merkle path; "+
			"such a mutation is judged by 'the new key must not prove under the genuine root', not by 'Prove(original key) fails'",
		"only single-field mutations are judged; key/child-hash concatenation without separators (leaf key = inner key||child hashes) is out of scope of the statement")

	// ---- A. every tree of 1..16 nodes: all single mutations
	t.Run("small", func(t *testing.T) {
		for n := 1; n <= 16; n++ {
			if !r.Mine(n) {
				continue
			}

			for si, style := range []string{"idx", "b58", "short"} {
				what := fmt.Sprintf("small n=%d style=%s", n, style)
				c := c12New(t, r, c12Keys(style, uint64(1000*n+si), n), si%3, si == 1, what)
				if c == nil {
					continue
				}

				st := &c12Stats{}
				rng := &c12Rng{s: uint64(n*31 + si)}

				for i := 0; i < n; i++ {
					for _, kind := range c12TreeKinds {
						for aux := 0; aux < 3; aux++ {
							c.checkTreeMutation(t, r, what, i, kind, int(rng.next()%1024))
						}
					}

					b := c.checkRekeyRoot(t, r, what, i, c.fresh("r"))
					c.checkRekeyRoot(t, r, what, i, c.keys[i]+"x")
					c.checkProof(t, r, what, i, true, rng, st)
					c.checkSplice(t, r, what, i, b, st)
				}

				c.checkStructural(t, r, what)

				nt := int64(0)
				if c12NonFull(n) {
					nt = 1
				}

				r.CaseN(1, nt, "size:1-16", fmt.Sprintf("lastlevel-nonfull:%v", c12NonFull(n)))
				r.Class("offpath-key-mutation-unauthenticated", int64(st.offpath))

				if n == 6 && style == "b58" {
					r.Sample(map[string]any{"part": "small", "n": n, "style": style, "proofs": st.proofs, "proof_mutations": st.muts, "splices": st.splices})
				}
			}
		}
	})

	if r.Failed() {
		return
	}

	// ---- B. generated trees up to 2000 nodes
	r.Checks(300, 20000)
	r.ShrinkTime(20 * time.Second)
	rapid.Check(t, func(rt *rapid.T) {
		var n int

		switch rapid.IntRange(0, 9).Draw(rt, "sizeClass") {
		case 0:
			n = rapid.IntRange(1, 16).Draw(rt, "n")
		case 1, 2, 3, 4:
			k := rapid.SampledFrom([]int{4, 5, 6, 7, 8, 9, 10}).Draw(rt, "pow")
			n = 1<<k + rapid.SampledFrom([]int{-1, 0, 1, 2}).Draw(rt, "off")
		case 5:
			n = rapid.SampledFrom([]int{1998, 1999, 2000}).Draw(rt, "nmax")
		default:
			b := rapid.SampledFrom([][2]int{{17, 64}, {65, 512}, {513, 2000}, {513, 2000}}).Draw(rt, "range")
			n = rapid.IntRange(b[0], b[1]).Draw(rt, "n")
		}

		style := rapid.SampledFrom(c12Styles).Draw(rt, "style")
		seed := rapid.Uint64().Draw(rt, "seed")
		order := rapid.IntRange(0, 2).Draw(rt, "order")
		viaWrite := rapid.Bool().Draw(rt, "viaWrite")
		mseed := rapid.Uint64().Draw(rt, "mutseed")

		what := fmt.Sprintf("n=%d style=%s seed=%d order=%d viaWrite=%v mutseed=%d", n, style, seed, order, viaWrite, mseed)
		c := c12New(rt, r, c12Keys(style, seed, n), order, viaWrite, what)

		if c != nil {
			rng := &c12Rng{s: mseed}
			st := &c12Stats{}

			// targets
			var targets []int
			if n <= 64 {
				for i := 0; i < n; i++ {
					targets = append(targets, i)
				}
			} else {
				set := map[int]struct{}{0: {}, n - 1: {}, (n - 2) / 2: {}, n / 2: {}, 1: {}, 2: {}}
				for len(set) < 14 {
					set[rng.intn(n)] = struct{}{}
				}

				for i := range set {
					targets = append(targets, i)
				}

				sort.Ints(targets)
			}

			splices := 0

			for _, i := range targets {
				c.checkProof(rt, r, what, i, n <= 16, rng, st)

				if i != 0 && splices < 4 && (n <= 64 && rng.intn(8) == 0 || n > 64 && rng.intn(3) == 0 || i == n-1) {
					b := c.checkRekeyRoot(rt, r, what, i, c.fresh("r"))
					c.checkSplice(rt, r, what, i, b, st)
					splices++
				}
			}

			// tree node mutations at drawn nodes (a check costs one IsValid pass over the tree)
			nm := 12
			if n <= 16 {
				nm = 40
			}

			for k := 0; k < nm; k++ {
				i := rng.intn(n)

				switch k {
				case 0:
					i = 0
				case 1:
					i = n - 1
				case 2:
					i = (n - 1) / 2 // parent of the last node (or a leaf next to it)
				}

				c.checkTreeMutation(rt, r, what, i, c12TreeKinds[rng.intn(len(c12TreeKinds))], int(rng.next()%(1<<20)))
			}

			c.checkStructural(rt, r, what)

			sizeClass := "size:1-16"

			switch {
			case n > 512:
				sizeClass = "size:513-2000"
			case n > 64:
				sizeClass = "size:65-512"
			case n > 16:
				sizeClass = "size:17-64"
			}

			nontrivial := c12NonFull(n) && n > 1
			r.Case(fmt.Sprintf("%d|%s|%d|%d|%v", n, style, seed, order, viaWrite), nontrivial,
				sizeClass, fmt.Sprintf("lastlevel-nonfull:%v", c12NonFull(n)), fmt.Sprintf("single-child-parent:%v", n%2 == 0), "style:"+style)
			r.Class("offpath-key-mutation-unauthenticated", int64(st.offpath))
			r.Class("proofs", int64(st.proofs))

			if nontrivial && r.WantSample() {
				r.Sample(map[string]any{"part": "generated", "n": n, "style": style, "seed": seed, "order": order, "via_write": viaWrite,
					"targets": targets, "proofs": st.proofs, "proof_mutations": st.muts, "splices": st.splices})
			}
		}
	})
}
