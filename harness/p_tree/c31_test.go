package p_tree

import (
	"fmt"
	"strings"
	"testing"
	"time"

	"github.com/spikeekips/mitum/util"
	"github.com/spikeekips/mitum/util/hint"
	"pgregory.net/rapid"
	"verif/internal/ev"
)

// ---------------------------------------------------------------------------------------------
// helpers written from the statement / the semver spec, not from util/hint or util/version.go

// c31Markers counts the places where a version could start inside s: "-v<digit>" (own scan, no regexp).
func c31Markers(s string) int {
	n := 0

	for i := 0; i+2 < len(s); i++ {
		if s[i] == '-' && s[i+1] == 'v' && s[i+2] >= '0' && s[i+2] <= '9' {
			n++
		}
	}

	return n
}

type c31Ver struct {
	major, minor, patch int
	pre, meta           string // without the leading '-' / '+'
}

func (v c31Ver) String() string {
	s := fmt.Sprintf("v%d.%d.%d", v.major, v.minor, v.patch)
	if v.pre != "" {
		s += "-" + v.pre
	}

	if v.meta != "" {
		s += "+" + v.meta
	}

	return s
}

func c31IsNum(s string) bool {
	if s == "" {
		return false
	}

	for i := 0; i < len(s); i++ {
		if s[i] < '0' || s[i] > '9' {
			return false
		}
	}

	return true
}

// c31Cmp: semver 2.0.0 precedence (§11); build metadata is ignored.
func c31Cmp(a, b c31Ver) int {
	for _, p := range [][2]int{{a.major, b.major}, {a.minor, b.minor}, {a.patch, b.patch}} {
		if p[0] != p[1] {
			if p[0] < p[1] {
				return -1
			}

			return 1
		}
	}

	switch {
	case a.pre == b.pre:
		return 0
	case a.pre == "":
		return 1
	case b.pre == "":
		return -1
	}

	x, y := strings.Split(a.pre, "."), strings.Split(b.pre, ".")
	for i := 0; i < len(x) && i < len(y); i++ {
		if x[i] == y[i] {
			continue
		}

		nx, ny := c31IsNum(x[i]), c31IsNum(y[i])

		switch {
		case nx && ny:
			if len(x[i]) != len(y[i]) {
				if len(x[i]) < len(y[i]) {
					return -1
				}

				return 1
			}

			if x[i] < y[i] {
				return -1
			}

			return 1
		case nx:
			return -1
		case ny:
			return 1
		case x[i] < y[i]:
			return -1
		default:
			return 1
		}
	}

	switch {
	case len(x) < len(y):
		return -1
	case len(x) > len(y):
		return 1
	default:
		return 0
	}
}

// c31RoundTrip checks clause 1 and 2 of the statement for one (type, version). Returns (valid hint, ambiguous split).
func c31RoundTrip(t ev.TB, r *ev.Rec, typ string, v c31Ver) (valid, marked bool) {
	ty := hint.Type(typ)
	if ty.IsValid(nil) != nil {
		return false, false
	}

	uv, err := util.ParseVersion(v.String())
	if err != nil {
		return false, false
	}

	if uv.String() != v.String() || int(uv.Major()) != v.major || int(uv.Minor()) != v.minor || int(uv.Patch()) != v.patch {
		t.Fatalf("harness: version %q is not canonical for util.ParseVersion (%q)", v.String(), uv.String())
	}

	h := hint.NewHint(ty, uv)
	if h.IsValid(nil) != nil {
		return false, false // e.g. version text longer than hint.MaxVersionLength
	}

	s := h.String()
	marked = c31Markers(s) > 1 || strings.Contains(s, "+v")

	sig := "roundtrip-mismatch"
	if c31Markers(typ) > 0 {
		sig = "type-contains-version-marker"
	}

	differs := func(p hint.Hint) bool {
		return string(p.Type()) != typ || p.Version().String() != v.String() ||
			int(p.Version().Major()) != v.major || int(p.Version().Minor()) != v.minor || int(p.Version().Patch()) != v.patch ||
			p.Version().Prerelease() != v.pre
	}

	for pass := 0; pass < 2; pass++ { // the second pass is answered from ParseHint's process-wide cache
		p, err := hint.ParseHint(s)

		switch {
		case err != nil:
			r.Violation(t, sig, "NewHint(%q, %q) prints %q; ParseHint fails: %v", typ, v.String(), s, err)
		case differs(p):
			what := "an invalid hint"
			if p.IsValid(nil) == nil {
				what = "the VALID but different hint"
			}

			r.Violation(t, sig, "NewHint(%q, %q) prints %q; ParseHint returns %s (type %q, version %q)", typ, v.String(), s, what, p.Type(), p.Version().String())
		case p.String() != s:
			r.Violation(t, "roundtrip-mismatch", "NewHint(%q, %q) prints %q; the parsed hint prints %q", typ, v.String(), s, p.String())
		}
	}

	// the text-unmarshal path used by every JSON-decoded hint
	var u hint.Hint
	if err := u.UnmarshalText([]byte(s)); err != nil || differs(u) {
		r.Violation(t, sig, "NewHint(%q, %q) prints %q; UnmarshalText gives (type %q, version %q, valid=%v) err=%v",
			typ, v.String(), s, u.Type(), u.Version().String(), u.IsValid(nil) == nil, err)
	}

	return true, marked
}

// ---------------------------------------------------------------------------------------------
// compatible set model

type c31Entry struct {
	ht hint.Hint
	id int
}

func (e c31Entry) Hint() hint.Hint { return e.ht }

type c31Reg struct {
	typ string
	v   c31Ver
	id  int
}

type c31Op struct {
	Kind int // 0 Add 1 AddHinter 2 Find 3 FindByString 4 FindBytType 5 FindBytTypeString
	Type int
	V    c31Ver
	Back int // > 0: reuse type and version of the op that many steps back (lookups of what was just added, re-adds)
}

var (
	c31SetTypes = []string{"ab", "a-b", "ab_v"}
	c31OpNames  = []string{"Add", "AddHinter", "Find", "FindByString", "FindBytType", "FindBytTypeString"}
)

func c31GenOp() *rapid.Generator[c31Op] {
	return rapid.Custom(func(t *rapid.T) c31Op {
		return c31Op{
			Kind: rapid.SampledFrom([]int{0, 0, 0, 1, 2, 2, 2, 3, 3, 4, 5}).Draw(t, "kind"),
			Type: rapid.IntRange(0, len(c31SetTypes)-1).Draw(t, "type"),
			V: c31Ver{
				major: rapid.IntRange(0, 1).Draw(t, "major"),
				minor: rapid.IntRange(0, 2).Draw(t, "minor"),
				patch: rapid.IntRange(0, 1).Draw(t, "patch"),
				pre:   rapid.SampledFrom([]string{"", "", "", "rc1", "v3", "rc.1", "rc.2", "rc.10"}).Draw(t, "pre"),
				meta:  rapid.SampledFrom([]string{"", "", "v1"}).Draw(t, "meta"),
			},
			Back: rapid.SampledFrom([]int{0, 0, 0, 1, 1, 2, 3}).Draw(t, "back"),
		}
	})
}

// best: the registered entry with the same type (and major, when byMajor) and the highest version; tie = several ids
func c31Best(reg []c31Reg, typ string, major int, byMajor bool) (ids []int) {
	var best *c31Reg

	for i := range reg {
		e := &reg[i]
		if e.typ != typ || (byMajor && e.v.major != major) {
			continue
		}

		switch {
		case best == nil || c31Cmp(e.v, best.v) > 0:
			best = e
			ids = []int{e.id}
		case c31Cmp(e.v, best.v) == 0:
			ids = append(ids, e.id)
		}
	}

	return ids
}

// c31PreOnly: the returned registration and the correct one have the same major.minor.patch and two different
// non-empty prereleases (root cause: precedence of prerelease identifiers).
func c31PreOnly(reg []c31Reg, want []int, got int, found bool) bool {
	if !found || len(want) < 1 {
		return false
	}

	var a, b *c31Reg

	for i := range reg {
		if reg[i].id == got {
			a = &reg[i]
		}

		if reg[i].id == want[0] {
			b = &reg[i]
		}
	}

	return a != nil && b != nil && a.typ == b.typ && a.v.major == b.v.major && a.v.minor == b.v.minor && a.v.patch == b.v.patch &&
		a.v.pre != "" && b.v.pre != "" && a.v.pre != b.v.pre
}

func c31In(ids []int, id int) bool {
	for _, i := range ids {
		if i == id {
			return true
		}
	}

	return false
}

// ---------------------------------------------------------------------------------------------

func TestC31(t *testing.T) {
	r := ev.Start(t, "C31")
	defer r.Finish()
	r.Rule("A: every string over {a,b,-,v,1,_,+} of length 2..5 (quick) / 2..6 (thorough) accepted by Type.IsValid x 8 versions (plain, prerelease '-v3', metadata '+v1', ...): " +
		"NewHint -> String -> ParseHint (twice: uncached/cached) and UnmarshalText must give back type and version; " +
		"B: generated types up to 100 chars with '-v<d>' fragments x generated versions; " +
		"C: histories of 4..40 Add/AddHinter/Find/FindByString/FindBytType/FindBytTypeString over 3 types x 2 majors x 6 minor.patch x 6 prereleases x 2 metadata on a cache-less and a cached CompatibleSet " +
		"compared at every step with a list-of-registrations model (own semver precedence). " +
		"non-trivial: printed hint with more than one '-v<digit>' or a '+v' (A,B); history with a lookup whose correct answer differs from the previous lookup of the same (type, major) / type (C)")
	r.Floor(int64(r.N(1000, 10000)))
	r.Assume("valid type = Type.IsValid, valid version = util.ParseVersion succeeds and Hint.IsValid accepts the pair (version text <= 20 chars)",
		"types used in set histories contain no '-v<digit>' so that the parse ambiguity (part A) and the set behaviour (part C) have separate signatures",
		"lookup by type (FindBytType*) is judged as 'highest registered version of that type' (DESIGN), lookup by hint as the statement says",
		"whether Add accepts a registration is not judged; only that both sets decide alike and what later lookups return")

	// ---- A. exhaustive small types
	t.Run("exhaustive", func(t *testing.T) {
		const alpha = "ab-v1_+"

		maxLen := r.N(5, 6)
		versions := []c31Ver{
			{0, 0, 1, "", ""}, {1, 2, 3, "", ""}, {2, 0, 0, "v3", ""}, {10, 1, 0, "", "v1"}, {1, 0, 0, "rc.1", "b-v2"}, {3, 0, 0, "0-v1", ""}, {1, 1, 1, "a", "v2.0.0"}, {1, 0, 0, "v2.0.0", ""},
		}

		var all, valid, marked, idx int64

		buf := make([]byte, 0, maxLen)

		var rec func()
		rec = func() {
			if len(buf) >= 2 {
				idx++

				if r.Mine(int(idx)) {
					for _, v := range versions {
						all++

						ok, m := c31RoundTrip(t, r, string(buf), v)
						if ok {
							valid++
						}

						if ok && m {
							marked++
						}
					}
				}
			}

			if len(buf) == maxLen {
				return
			}

			for i := 0; i < len(alpha); i++ {
				buf = append(buf, alpha[i])
				rec()
				buf = buf[:len(buf)-1]
			}
		}
		rec()

		r.CaseN(valid, marked, "A:valid-hint")
		r.Class("A:strings-x-versions", all)
		r.Class("A:ambiguous-print", marked)
		r.Extra("A_max_type_len", maxLen)
		r.Sample(map[string]any{"part": "A", "alphabet": alpha, "max_len": maxLen, "versions": fmt.Sprint(versions), "valid_hints": valid, "with_second_marker": marked})

		if valid < 1000 {
			t.Fatalf("harness: only %d valid hints enumerated", valid)
		}
	})

	if r.Failed() {
		return
	}

	// ---- B. long / random types
	bSamples := 0

	r.Checks(20000, 2000000)
	r.ShrinkTime(10 * time.Second)
	rapid.Check(t, func(rt *rapid.T) {
		const alnum = "abcdefghijklmnopqrstuvwxyz0123456789"
		frags := []string{"-", "_", "+", "-v", "-v1", "-v22", "v1", "v", "0", "1", "-v0", "--", "-v-v1", "+v1"}

		target := rapid.IntRange(2, 100).Draw(rt, "len")
		b := []byte{alnum[rapid.IntRange(0, len(alnum)-1).Draw(rt, "first")]}

		for len(b) < target-1 {
			if rapid.IntRange(0, 3).Draw(rt, "frag?") == 0 {
				f := rapid.SampledFrom(frags).Draw(rt, "frag")
				if len(b)+len(f) > target-1 {
					break
				}

				b = append(b, f...)
			} else {
				b = append(b, alnum[rapid.IntRange(0, len(alnum)-1).Draw(rt, "c")])
			}
		}

		b = append(b, alnum[rapid.IntRange(0, len(alnum)-1).Draw(rt, "last")])
		typ := string(b)

		if hint.Type(typ).IsValid(nil) != nil {
			rt.Fatalf("harness: generated type %q is not valid", typ)
		}

		v := c31Ver{
			major: rapid.SampledFrom([]int{0, 1, 2, 9, 10, 123}).Draw(rt, "major"),
			minor: rapid.IntRange(0, 12).Draw(rt, "minor"),
			patch: rapid.IntRange(0, 12).Draw(rt, "patch"),
			pre:   rapid.SampledFrom([]string{"", "", "rc1", "v3", "0", "alpha.1", "v1.2.3", "x-v2", "-v1"}).Draw(rt, "pre"),
			meta:  rapid.SampledFrom([]string{"", "", "v1", "b.5", "v2.0.0", "-v9"}).Draw(rt, "meta"),
		}

		ok, m := c31RoundTrip(rt, r, typ, v)

		cls := "B:invalid-hint(version too long)"
		if ok {
			cls = "B:valid-hint"
		}

		r.Case("B|"+typ+"|"+v.String(), ok && m, cls, fmt.Sprintf("B:type-has-marker:%v", c31Markers(typ) > 0))

		if ok && m && len(typ) > 20 && bSamples < 2 && r.WantSample() {
			bSamples++
			r.Sample(map[string]any{"part": "B", "type": typ, "version": v.String()})
		}
	})

	if r.Failed() {
		return
	}

	// ---- C. compatible set histories
	r.Checks(5000, 1000000)
	r.ShrinkTime(20 * time.Second)
	rapid.Check(t, func(rt *rapid.T) {
		size := rapid.SampledFrom([]int{1, 3, 8, 1024}).Draw(rt, "cacheSize")
		ops := rapid.SliceOfN(c31GenOp(), 4, 40).Draw(rt, "ops")

		plain := hint.NewCompatibleSet[c31Entry](0)
		cached := hint.NewCompatibleSet[c31Entry](size)
		sets := []*hint.CompatibleSet[c31Entry]{plain, cached}
		names := []string{"cache-less", fmt.Sprintf("cached(size %d)", size)}

		var reg []c31Reg

		everBest := map[int]bool{} // ids that were the correct answer of some lookup at some time
		var hist []string

		last := map[string]string{} // (type, major) or type -> model answer at the previous lookup of that bucket
		nontrivial := false
		lookups := 0

		for step, op := range ops {
			if op.Back > 0 && step-op.Back >= 0 {
				op.Type, op.V = ops[step-op.Back].Type, ops[step-op.Back].V
				ops[step] = op
			}

			typ := c31SetTypes[op.Type]

			uv, err := util.ParseVersion(op.V.String())
			if err != nil {
				rt.Fatalf("harness: version %q: %v", op.V.String(), err)
			}

			ht := hint.NewHint(hint.Type(typ), uv)
			if ht.IsValid(nil) != nil {
				rt.Fatalf("harness: hint %q invalid", ht)
			}

			if op.Kind >= 4 {
				hist = append(hist, fmt.Sprintf("%s(%s)", c31OpNames[op.Kind], typ))
			} else {
				hist = append(hist, fmt.Sprintf("%s(%s)", c31OpNames[op.Kind], ht.String()))
			}

			trail := func() string { return strings.Join(hist, " ") }

			switch op.Kind {
			case 0, 1:
				e := c31Entry{ht: ht, id: step + 1}

				var errs [2]error

				for i, st := range sets {
					if op.Kind == 0 {
						errs[i] = st.Add(ht, e)
					} else {
						errs[i] = st.AddHinter(e)
					}
				}

				if (errs[0] == nil) != (errs[1] == nil) {
					r.Violation(rt, "cached-uncached-disagree-add", "history %s: cache-less set answers %v, %s answers %v", trail(), errs[0], names[1], errs[1])
				}

				if errs[0] == nil {
					reg = append(reg, c31Reg{typ: typ, v: op.V, id: e.id})

					for _, id := range append(c31Best(reg, typ, op.V.major, true), c31Best(reg, typ, 0, false)...) {
						everBest[id] = true
					}
				}
			default:
				byType := op.Kind >= 4
				want := c31Best(reg, typ, op.V.major, !byType)
				q := ht.String()

				if byType {
					q = typ
				}

				bucket := fmt.Sprintf("%s|%d", typ, op.V.major)
				if byType {
					bucket = typ
				}

				ans := fmt.Sprint(want)
				if prev, found := last[bucket]; found && prev != ans {
					nontrivial = true
				}

				last[bucket] = ans
				lookups++

				for i, st := range sets {
					var got c31Entry

					var found bool

					var ferr error

					switch op.Kind {
					case 2:
						got, found = st.Find(ht)
					case 3:
						_, got, found, ferr = st.FindByString(q)
					case 4:
						_, got, found = st.FindBytType(hint.Type(typ))
					default:
						_, got, found, ferr = st.FindBytTypeString(q)
					}

					okAns := ferr == nil && found == (len(want) > 0) && (!found || c31In(want, got.id))
					if okAns {
						continue
					}

					sig := "lookup-wrong-entry"

					switch {
					case c31PreOnly(reg, want, got.id, found):
						sig = "prerelease-precedence-wrong" // returned and correct registration differ only in the prerelease
					case i == 1 && found && !everBest[got.id]:
						// the cache-less set was checked first and was right; the cached one returns a registration that never was the highest
						sig = "add-caches-losing-registration"
					case i == 1:
						sig = "cache-stale-after-add" // an answer that was right before a later Add
					case byType:
						sig = "type-lookup-wrong-entry"
					}

					r.Violation(rt, sig, "history %s: %s %s(%s) returns found=%v id=%d (%s) err=%v; registered with that type%s: highest is id %v of %v",
						trail(), names[i], c31OpNames[op.Kind], q, found, got.id, got.ht.String(), ferr,
						map[bool]string{true: "", false: " and major"}[byType], want, reg)
				}
			}
		}

		r.Case(fmt.Sprintf("C|%d|%s", size, strings.Join(hist, ";")), nontrivial, fmt.Sprintf("C:cache-size:%d", size), fmt.Sprintf("C:answer-changes:%v", nontrivial))
		r.Class("C:lookups", int64(lookups))

		if nontrivial && len(ops) <= 10 && r.WantSample() {
			r.Sample(map[string]any{"part": "C", "cache_size": size, "history": hist})
		}
	})
}
