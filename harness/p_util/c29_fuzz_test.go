package p_util

import (
	"encoding/binary"
	"testing"

	"verif/internal/ev"
)

// FuzzC29: arbitrary bytes into every reader of the length-prefixed framing; the oracle is the same reference parser as
// in TestC29 (error exactly when the reference says malformed, identical parse otherwise, never a panic).
func FuzzC29(f *testing.F) {
	for _, m := range [][][]byte{nil, {{}}, {{1}}, {{}, {1, 2, 3}, {}}, {make([]byte, 300)}} {
		f.Add(refEncodeList(m), uint8(0))
		f.Add(append(refEncodeList(m), 0xde, 0xad), uint8(1))
	}

	for _, v := range []uint64{0, 1, 1 << 15, 1<<15 - 1, 1 << 22, 1 << 31, 1 << 32, 1 << 63, ^uint64(0)} {
		b := binary.BigEndian.AppendUint64(nil, v)
		f.Add(b, uint8(0))
		f.Add(append(binary.BigEndian.AppendUint64(nil, 2), b...), uint8(2))
		f.Add(append(append(binary.BigEndian.AppendUint64(nil, 1), b...), 1, 2, 3), uint8(1))
	}

	r := ev.Start(f, "C29")

	f.Fuzz(func(t *testing.T, b []byte, chunk uint8) {
		if len(b) > 1<<16 {
			return
		}

		// keep hostile item lengths that would make the stream reader allocate hundreds of MiB per Read out of the fuzz loop
		// (allocation size is a resource observation, not part of the property)
		if n := len(b); n >= 16 {
			for i := 8; i+8 <= n; i++ {
				if v := binary.BigEndian.Uint64(b[i:]); v > 1<<24 && v <= 1<<31 {
					return
				}
			}
		}

		ch := chunking{Name: "whole"}

		switch chunk % 3 {
		case 1:
			ch = chunking{Name: "1byte", Cuts: []int{1}}
		case 2:
			ch = chunking{Name: "drawn", Cuts: []int{3, 1, 7, 2}, EOFTog: true}
		}

		c29CheckBytes(t, r, b, ch, "fuzz")
	})
}
