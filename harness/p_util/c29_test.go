package p_util

import (
	"bytes"
	"encoding/binary"
	"fmt"
	"io"
	"runtime"
	"runtime/debug"
	"testing"
	"time"

	"github.com/spikeekips/mitum/util"
	"pgregory.net/rapid"
	"verif/internal/ev"
)

// ---- reference encoder / parser (written from the format, shares no code with util/bytes.go)

const c29MaxItems = 32767 // documented cap of the list readers (math.MaxInt16)

func refEncodeList(m [][]byte) []byte {
	var b []byte
	b = binary.BigEndian.AppendUint64(b, uint64(len(m)))
	for _, it := range m {
		b = binary.BigEndian.AppendUint64(b, uint64(len(it)))
		b = append(b, it...)
	}

	return b
}

// refParseList: ok=false means "malformed: the reader must return an error".
func refParseList(b []byte) (m [][]byte, left []byte, ok bool) {
	if len(b) < 8 {
		return nil, nil, false
	}

	n := binary.BigEndian.Uint64(b)
	b = b[8:]

	if n > c29MaxItems {
		return nil, nil, false
	}

	m = make([][]byte, 0, n)

	for i := uint64(0); i < n; i++ {
		if len(b) < 8 {
			return nil, nil, false
		}

		l := binary.BigEndian.Uint64(b)
		b = b[8:]

		if l > uint64(len(b)) {
			return nil, nil, false
		}

		m = append(m, b[:l])
		b = b[l:]
	}

	return m, b, true
}

func sameList(a, b [][]byte) bool {
	if len(a) != len(b) {
		return false
	}

	for i := range a {
		if !bytes.Equal(a[i], b[i]) {
			return false
		}
	}

	return true
}

// ---- chunked readers

type chunkReader struct {
	b      []byte
	cuts   []int // sizes, cycled
	i      int
	eofTog bool // deliver io.EOF together with the final bytes
}

func (c *chunkReader) Read(p []byte) (int, error) {
	if len(p) == 0 {
		return 0, nil
	}

	if len(c.b) == 0 {
		return 0, io.EOF
	}

	n := len(p)
	if len(c.cuts) > 0 {
		k := c.cuts[c.i%len(c.cuts)]
		c.i++

		if k < n {
			n = k
		}
	}

	if n > len(c.b) {
		n = len(c.b)
	}

	copy(p, c.b[:n])
	c.b = c.b[n:]

	if len(c.b) == 0 && c.eofTog {
		return n, io.EOF
	}

	return n, nil
}

type chunking struct {
	Name   string
	Cuts   []int
	EOFTog bool
}

func (c chunking) reader(b []byte) io.Reader {
	cp := make([]byte, len(b))
	copy(cp, b)

	return &chunkReader{b: cp, cuts: c.Cuts, eofTog: c.EOFTog}
}

func genChunking() *rapid.Generator[chunking] {
	return rapid.Custom(func(t *rapid.T) chunking {
		switch rapid.IntRange(0, 3).Draw(t, "chunkKind") {
		case 0:
			return chunking{Name: "whole", EOFTog: rapid.Bool().Draw(t, "eofTog")}
		case 1:
			return chunking{Name: "1byte", Cuts: []int{1}, EOFTog: rapid.Bool().Draw(t, "eofTog")}
		default:
			return chunking{
				Name:   "drawn",
				Cuts:   rapid.SliceOfN(rapid.IntRange(1, 40), 1, 12).Draw(t, "cuts"),
				EOFTog: rapid.Bool().Draw(t, "eofTog"),
			}
		}
	})
}

func genItem() *rapid.Generator[[]byte] {
	return rapid.Custom(func(t *rapid.T) []byte {
		switch rapid.IntRange(0, 9).Draw(t, "itemClass") {
		case 0, 1:
			return []byte{}
		case 2, 3:
			return []byte{rapid.Byte().Draw(t, "b")}
		case 4, 5, 6:
			return rapid.SliceOfN(rapid.Byte(), 2, 24).Draw(t, "bs")
		case 7:
			return rapid.SliceOfN(rapid.Byte(), 8, 8).Draw(t, "bs8") // looks like a length word
		case 8:
			n := rapid.IntRange(100, 3000).Draw(t, "n")
			b := make([]byte, n)
			seed := rapid.Byte().Draw(t, "fill")
			for i := range b {
				b[i] = seed + byte(i*7)
			}

			return b
		default:
			n := rapid.SampledFrom([]int{65535, 65536, 65537}).Draw(t, "n64k")
			b := make([]byte, n)
			seed := rapid.Byte().Draw(t, "fill")
			for i := range b {
				b[i] = seed ^ byte(i)
			}

			return b
		}
	})
}

func genList() *rapid.Generator[[][]byte] {
	return rapid.Custom(func(t *rapid.T) [][]byte {
		n := rapid.IntRange(0, 9).Draw(t, "n")

		return rapid.SliceOfN(genItem(), n, n).Draw(t, "items")
	})
}

func descList(m [][]byte) string {
	s := fmt.Sprintf("n=%d[", len(m))
	for i, it := range m {
		if i > 12 {
			s += "..."

			break
		}

		s += fmt.Sprintf("%d,", len(it))
	}

	return s + "]"
}

func c29NoPanic(t ev.TB, r *ev.Rec, what string, f func()) {
	defer func() {
		if x := recover(); x != nil {
			if ev.IsRapidUnwind(x) {
				panic(x) // rapid's own unwinding (a violation already reported through t.Fatalf, invalid data), not a panic of the code
			}

			r.Violation(t, "panic", "%s panicked: %v", what, x)
		}
	}()

	f()
}

// readAllForms reads encoding enc of list m (plus trailing bytes `trail` for the buffer reader) with every reader and
// compares with the reference parse of the same bytes.
func c29CheckBytes(t ev.TB, r *ev.Rec, enc []byte, ch chunking, what string) {
	wantM, wantLeft, wantOK := refParseList(enc)

	// buffer reader
	c29NoPanic(t, r, "ReadLengthedBytesSlice", func() {
		cp := append([]byte(nil), enc...)
		m, left, err := util.ReadLengthedBytesSlice(cp)

		switch {
		case !wantOK && err == nil:
			sig := "buffer-malformed-accepted"
			if len(enc) >= 8 && binary.BigEndian.Uint64(enc) > c29MaxItems {
				sig = "buffer-overcap-silent"
			}

			r.Violation(t, sig, "%s: ReadLengthedBytesSlice returned no error for malformed input (%d bytes, head % x): got %d items left %d",
				what, len(enc), enc[:min(len(enc), 24)], len(m), len(left))
		case wantOK && err != nil:
			r.Violation(t, "buffer-valid-rejected", "%s: ReadLengthedBytesSlice rejected a well-formed encoding: %v", what, err)
		case wantOK:
			if !sameList(m, wantM) || !bytes.Equal(left, wantLeft) {
				r.Violation(t, "buffer-mismatch", "%s: ReadLengthedBytesSlice returned %s left=%d, want %s left=%d",
					what, descList(m), len(left), descList(wantM), len(wantLeft))
			}
		}
	})

	// stream reader
	c29NoPanic(t, r, "ReadLengthedSlice", func() {
		rd := ch.reader(enc)
		n, hs, err := util.ReadLengthedSlice(rd)

		switch {
		case !wantOK && err == nil:
			r.Violation(t, "stream-malformed-accepted", "%s chunk=%s: ReadLengthedSlice returned no error for malformed input (%d bytes): %d items",
				what, ch.Name, len(enc), len(hs))
		case wantOK && err != nil:
			r.Violation(t, "stream-valid-rejected", "%s chunk=%s %v: ReadLengthedSlice rejected a well-formed encoding: %v", what, ch.Name, ch.Cuts, err)
		case wantOK:
			if !sameList(hs, wantM) {
				r.Violation(t, "stream-mismatch", "%s chunk=%s: ReadLengthedSlice returned %s, want %s", what, ch.Name, descList(hs), descList(wantM))
			}

			if int(n) != len(enc)-len(wantLeft) {
				r.Violation(t, "stream-readcount", "%s chunk=%s: ReadLengthedSlice reports %d bytes read, consumed encoding is %d", what, ch.Name, n, len(enc)-len(wantLeft))
			}

			rest, _ := io.ReadAll(rd)
			if !bytes.Equal(rest, wantLeft) {
				r.Violation(t, "stream-overread", "%s chunk=%s: after ReadLengthedSlice %d bytes are left in the stream, want %d", what, ch.Name, len(rest), len(wantLeft))
			}
		}
	})
}

type c29Frame struct {
	Header   [][]byte
	Lengthed [][]byte
	Body     []byte // unframed tail (only when Lengthed is empty)
}

func (f c29Frame) encode() (b []byte, bounds []int) {
	b = []byte{0, 0}
	b = append(b, refEncodeList(f.Header)...)
	bounds = append(bounds, len(b))

	for _, it := range f.Lengthed {
		b = binary.BigEndian.AppendUint64(b, uint64(len(it)))
		b = append(b, it...)
		bounds = append(bounds, len(b))
	}

	b = append(b, f.Body...)

	return b, bounds
}

// c29ReadFrame reads version, header, then exactly nLengthed lengthed bodies (the count is the caller's protocol
// knowledge; reading past the end is documented in-tree to fail with "insufficient read"), or the unframed body.
func c29ReadFrame(rd io.Reader, withBody bool, nLengthed int) (hdr [][]byte, items [][]byte, body []byte, err error) {
	fr, err := util.NewBytesFrameReader(rd)
	if err != nil {
		return nil, nil, nil, err
	}

	hdr, err = fr.Header()
	if err != nil {
		return nil, nil, nil, err
	}

	if withBody {
		body, err = fr.Body()

		return hdr, nil, body, err
	}

	for i := 0; i < nLengthed; i++ {
		called := false

		if err = fr.Lengthed(func(b []byte) error {
			called = true
			items = append(items, b)

			return nil
		}); err != nil {
			return hdr, items, nil, err
		}

		if !called {
			return hdr, items, nil, io.ErrUnexpectedEOF // the reader reported a clean end before the expected item
		}
	}

	return hdr, items, nil, nil
}

func TestC29(t *testing.T) {
	r := ev.Start(t, "C29")
	defer r.Finish()
	r.Rule("lists: 0..9 items from length classes {0,1,2..24,8,100..3000,64KiB±1} plus big-count lists {32766,32767,32768,40000}; " +
		"written with WriteLengthedSlice/NewLengthedBytesSlice/BytesFrameWriter, read with ReadLengthedBytesSlice, ReadLengthedSlice, " +
		"BytesFrameReader through chunkings {whole,1-byte,drawn cuts}x{EOF with data, EOF after}; all truncations (small) / drawn offsets, " +
		"byte flips and hostile length words compared with an independent reference parser. " +
		"non-trivial: >1 item with a zero-length item, or 1-byte chunking, or count>=32767, or a mutated/truncated input; distinct by (shape, chunking, mutation)")
	r.Floor(50)
	r.Assume("lists above the documented 32767-item cap may be rejected with an error, never silently dropped",
		"the unframed Body() tail is not self-delimiting and is therefore not subject to the truncation clause")

	// ---- A. big-count classes (deterministic)
	t.Run("bigcount", func(t *testing.T) {
		for i, n := range []int{32766, 32767, 32768, 40000} {
			if !r.Mine(i) {
				continue
			}

			m := make([][]byte, n)
			for j := range m {
				switch j % 3 {
				case 0:
					m[j] = []byte{}
				case 1:
					m[j] = []byte{byte(j)}
				default:
					m[j] = []byte{byte(j), byte(j >> 8)}
				}
			}

			enc, err := util.NewLengthedBytesSlice(m)
			if err != nil {
				t.Fatalf("write: %v", err)
			}

			if !bytes.Equal(enc, refEncodeList(m)) {
				r.Violation(t, "writer-mismatch", "NewLengthedBytesSlice(%d items) differs from the reference encoding", n)
			}

			what := fmt.Sprintf("bigcount n=%d", n)
			enc = append(enc, 0xde, 0xad)
			c29CheckBytes(t, r, enc, chunking{Name: "whole"}, what)
			c29CheckBytes(t, r, enc, chunking{Name: "drawn", Cuts: []int{7, 1, 13}}, what)
			r.Case(what, true, "bigcount")
			r.Sample(map[string]any{"kind": "bigcount", "items": n, "encoded_bytes": len(enc)})
		}
	})

	// ---- B. round trips and mutations (rapid)
	r.Checks(1500, 40000)
	r.ShrinkTime(15 * time.Second)
	rapid.Check(t, func(rt *rapid.T) {
		// a flipped or hostile length word below 2 GiB makes the stream readers allocate what it announces (twice: ReadLengthed's
		// buffer and EnsureRead's per-Read scratch buffer); hand that memory back before the next case so that parallel shards
		// do not run the machine out of memory (resource hygiene only, no effect on verdicts)
		defer c29ReleaseMemory()

		m := genList().Draw(rt, "list")
		ch := genChunking().Draw(rt, "chunking")

		total := 0
		for _, it := range m {
			total += len(it)
		}

		if total > 20000 && len(ch.Cuts) > 0 {
			// EnsureRead allocates the remaining length and starts a goroutine per Read call: keep 64 KiB items affordable
			for i := range ch.Cuts {
				ch.Cuts[i] *= 997
			}

			ch.Name += "x997"
		}
		trail := rapid.SliceOfN(rapid.Byte(), 0, 12).Draw(rt, "trail")
		mode := rapid.SampledFrom([]string{"roundtrip", "roundtrip", "truncate", "flip", "hostile", "frame", "frame", "frametrunc"}).Draw(rt, "mode")

		enc, err := util.NewLengthedBytesSlice(m)
		if err != nil {
			rt.Fatalf("write: %v", err)
		}

		buf := bytes.NewBuffer(nil)
		if err := util.WriteLengthedSlice(buf, m); err != nil {
			rt.Fatalf("write: %v", err)
		}

		if !bytes.Equal(enc, refEncodeList(m)) || !bytes.Equal(buf.Bytes(), enc) {
			r.Violation(rt, "writer-mismatch", "writers disagree with the reference encoding for %s", descList(m))
		}

		hasZero := false
		for _, it := range m {
			if len(it) == 0 {
				hasZero = true
			}
		}

		nontrivial := (len(m) > 1 && hasZero) || ch.Name == "1byte"
		mut := ""

		switch mode {
		case "roundtrip":
			full := append(append([]byte(nil), enc...), trail...)
			c29CheckBytes(rt, r, full, ch, "roundtrip "+descList(m))
			// the reference must agree this is the list that was written
			if pm, left, ok := refParseList(full); !ok || !sameList(pm, m) || !bytes.Equal(left, trail) {
				rt.Fatalf("reference parser broken")
			}
		case "truncate":
			// every strict prefix for small encodings, drawn offsets otherwise
			var offs []int
			if len(enc) <= 200 {
				for k := 0; k < len(enc); k++ {
					offs = append(offs, k)
				}
			} else {
				offs = rapid.SliceOfN(rapid.IntRange(0, len(enc)-1), 1, 20).Draw(rt, "offs")
			}

			for _, k := range offs {
				c29CheckBytes(rt, r, enc[:k], ch, fmt.Sprintf("truncate@%d of %d %s", k, len(enc), descList(m)))
			}

			nontrivial = true
			mut = fmt.Sprintf("trunc%d", len(offs))
		case "flip":
			full := append(append([]byte(nil), enc...), trail...)
			k := rapid.IntRange(0, len(full)-1).Draw(rt, "flipAt")
			x := rapid.ByteRange(1, 255).Draw(rt, "xor")
			full[k] ^= x
			c29CheckBytes(rt, r, full, ch, fmt.Sprintf("flip@%d^%02x %s", k, x, descList(m)))
			nontrivial = true
			mut = fmt.Sprintf("flip%d^%d", k, x)
		case "hostile":
			full := append(append([]byte(nil), enc...), trail...)
			// overwrite one length word (count or an item's length) with a hostile constant
			pos := []int{0}
			o := 8
			for _, it := range m {
				pos = append(pos, o)
				o += 8 + len(it)
			}

			k := rapid.SampledFrom(pos).Draw(rt, "wordAt")
			vals := []uint64{0, 1, 2, 1 << 15, 1<<15 - 1, 1 << 22, 1 << 31, 1 << 32, 1 << 63, ^uint64(0), ^uint64(0) - 7, uint64(len(full)), uint64(len(full)) - 8}
			if ch.Name == "whole" {
				vals = append(vals, 1<<31-1) // the stream reader allocates what the length word says (up to 2 GiB) before reading
			}

			v := rapid.SampledFrom(vals).Draw(rt, "hostile")
			binary.BigEndian.PutUint64(full[k:], v)
			c29CheckBytes(rt, r, full, ch, fmt.Sprintf("hostile@%d=%d %s", k, v, descList(m)))
			nontrivial = true
			mut = fmt.Sprintf("host%d=%d", k, v)
		case "frame", "frametrunc":
			fr := c29Frame{Header: m}
			withBody := rapid.Bool().Draw(rt, "withBody")
			if withBody {
				fr.Body = rapid.SliceOfN(rapid.Byte(), 0, 40).Draw(rt, "body")
			} else {
				k := rapid.IntRange(0, 4).Draw(rt, "nLengthed")
				fr.Lengthed = rapid.SliceOfN(genItem(), k, k).Draw(rt, "lengthed")
			}

			// writer side: public API must produce the reference bytes
			fw, wbuf := util.NewBufferBytesFrameWriter()
			if err := fw.Header(fr.Header...); err != nil {
				rt.Fatalf("header: %v", err)
			}

			for _, it := range fr.Lengthed {
				if err := fw.Lengthed(it); err != nil {
					rt.Fatalf("lengthed: %v", err)
				}
			}

			if withBody {
				_, _ = fw.Writer().Write(fr.Body)
			}

			want, bounds := fr.encode()
			if !bytes.Equal(wbuf.Bytes(), want) {
				r.Violation(rt, "frame-writer-mismatch", "BytesFrameWriter output differs from the reference for header %s", descList(m))
			}

			cut := len(want)
			if mode == "frametrunc" {
				cut = rapid.IntRange(0, len(want)-1).Draw(rt, "cut")
				nontrivial = true
				mut = fmt.Sprintf("fcut%d/%d", cut, len(want))
			}

			c29NoPanic(rt, r, "BytesFrameReader", func() {
				hdr, items, body, err := c29ReadFrame(ch.reader(want[:cut]), withBody, len(fr.Lengthed))

				switch {
				case cut == len(want):
					if err != nil {
						r.Violation(rt, "frame-valid-rejected", "frame chunk=%s %v: reading a complete frame failed: %v", ch.Name, ch.Cuts, err)
					} else if !sameList(hdr, fr.Header) || !sameList(items, fr.Lengthed) || !bytes.Equal(body, fr.Body) {
						r.Violation(rt, "frame-mismatch", "frame chunk=%s %v: read header %s items %s body %d; written header %s items %s body %d",
							ch.Name, ch.Cuts, descList(hdr), descList(items), len(body), descList(fr.Header), descList(fr.Lengthed), len(fr.Body))
					}
				case cut < bounds[0]:
					// version+header are self-delimiting: a strict prefix must be an error
					if err == nil {
						r.Violation(rt, "frame-truncated-accepted", "frame chunk=%s: a frame cut at %d (header ends at %d) was read without error: header %s",
							ch.Name, cut, bounds[0], descList(hdr))
					}
				case withBody:
					if err != nil || !sameList(hdr, fr.Header) || !bytes.Equal(body, want[bounds[0]:cut]) {
						r.Violation(rt, "frame-mismatch", "frame chunk=%s: body cut at %d: err=%v", ch.Name, cut, err)
					}
				default:
					// header + a known number of lengthed bodies is self-delimiting: any strict prefix must fail
					if err == nil {
						r.Violation(rt, "frame-truncated-accepted", "frame chunk=%s: a frame with %d lengthed bodies cut at %d of %d was read without error: items %s",
							ch.Name, len(fr.Lengthed), cut, len(want), descList(items))
					}
				}
			})
		}

		fp := fmt.Sprintf("%s|%s|%s%v%v|%s", mode, descList(m), ch.Name, ch.Cuts, ch.EOFTog, mut)
		r.Case(fp, nontrivial, "mode:"+mode, "chunk:"+ch.Name)

		if nontrivial && r.WantSample() {
			r.Sample(map[string]any{"mode": mode, "list": descList(m), "chunking": ch.Name, "cuts": ch.Cuts, "eof_with_data": ch.EOFTog, "mutation": mut})
		}
	})
}

func c29ReleaseMemory() {
	var ms runtime.MemStats
	runtime.ReadMemStats(&ms)

	if ms.HeapSys-ms.HeapReleased > 1<<30 {
		debug.FreeOSMemory()
	}
}
