#!/usr/bin/env python3
"""Generates MANIFEST.json from props.json (the single table the driver also reads)."""
import json, os, subprocess
ROOT = os.path.dirname(os.path.abspath(__file__))
import glob
props = {os.path.basename(f)[:-5]: json.load(open(f)) for f in glob.glob(os.path.join(ROOT, "props", "C*.json"))}
allids = [json.loads(l)["id"] for l in open(os.path.join(ROOT, "properties.jsonl"))]
na = json.load(open(os.path.join(ROOT, "not_applicable.json"))) if os.path.exists(os.path.join(ROOT, "not_applicable.json")) else {}
hooks = []
try:
    out = subprocess.run(["git", "-C", "/repo", "log", "--format=%h %s"], stdout=subprocess.PIPE, text=True).stdout
    hooks = [l.split()[0] for l in out.splitlines() if " verif hook" in l or l.split(" ", 1)[1].startswith("verif:")]
except Exception:
    pass
ready = set(open(os.path.join(ROOT, "ready.txt")).read().split())
for pid in list(props):
    if pid not in ready:
        props[pid]["disabled"] = True
checks = []
for pid in allids:
    if pid not in props or props[pid].get("disabled"):
        continue
    c = props[pid]
    checks.append({
        "property_id": pid,
        "quick_cmd": "./check %s --tier quick" % pid,
        "thorough_cmd": "./check %s --tier thorough" % pid,
        "evidence_file": "/verif/evidence/%s.json" % pid,
        "replay_cmd_template": "./check %s --replay {path}" % pid,
        "engine": "harness/" + c["pkg"],
        "level_claimed": {"category": c.get("level", "exploration"), "text": c["level_text"], "design_ref": "DESIGN.md section 6, " + pid},
        "level_note": c["level_note"],
        "technique": c["technique"],
    })
m = {
    "version": 1,
    "setup_cmd": "./setup.sh",
    "hooks": {
        "guard": "verif",
        "enable": "go test -c -tags 'test verif' (harness module with replace github.com/spikeekips/mitum => /repo); tag 'test' only enables the repository's own exported test helpers",
        "baseline_off_cmd": "./baseline_off.sh",
        "source_commits": hooks,
        "add_only": True,
    },
    "engines": [{"name": "harness/" + p, "path": "/verif/harness/" + p, "serves_properties": [i for i in allids if i in props and props[i]["pkg"] == p],
                 "kind_free_text": "Go test binary: rapid v1.3.0 property/state-machine tests, exhaustive enumerations, native go fuzz targets; evidence via harness/internal/ev"}
                for p in sorted({props[i]["pkg"] for i in props})],
    "checks": checks,
    "notes": "Driver ./check <id> --tier quick|thorough [--replay file]; exit 0 held / 1 VIOLATION / 2 inconclusive (build error, timeout, starved generator). known_findings.txt lists recorded findings and fixed defects.",
    "not_applicable": [{"property_id": i, "reason": na.get(i, "check not built yet in this round; see DESIGN.md section 6 for the planned generator and oracle")} for i in allids if i not in props or props[i].get("disabled")],
}
json.dump(m, open(os.path.join(ROOT, "MANIFEST.json"), "w"), indent=1)
print("checks:", len(checks), "not_applicable:", len(m["not_applicable"]))
