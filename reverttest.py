#!/usr/bin/env python3
"""For every `fixed:` entry of known_findings.txt: revert that fix commit in a scratch worktree of /repo HEAD and require the property's
check to report a violation again (exit 1). Writes reverttest_results.json. usage: ./reverttest.py [-j N]"""
import json, os, re, subprocess, sys, concurrent.futures, queue, time
ROOT = os.path.dirname(os.path.abspath(__file__))
J = int(sys.argv[sys.argv.index("-j") + 1]) if "-j" in sys.argv else 4
items = []
for l in open(os.path.join(ROOT, "known_findings.txt")):
    m = re.match(r"fixed: property=(C\d+) (\w+) (.*)", l.strip())
    if m:
        items.append(m.groups())
q = queue.Queue()
for s in range(J): q.put(s)
def run(it):
    prop, commit, what = it
    s = q.get()
    wt = "/tmp/wt_revert_%d_%d" % (os.getpid(), s)
    try:
        if not os.path.isdir(wt):
            subprocess.run(["git", "-C", "/repo", "worktree", "add", "-q", "--detach", wt, "HEAD"], check=True)
        subprocess.run(["git", "-C", wt, "reset", "-q", "--hard", "HEAD"], check=True)
        r = subprocess.run(["git", "-C", wt, "revert", "--no-commit", commit], stdout=subprocess.PIPE, stderr=subprocess.STDOUT, text=True)
        if r.returncode != 0:
            subprocess.run(["git", "-C", wt, "revert", "--abort"], stdout=subprocess.DEVNULL, stderr=subprocess.DEVNULL)
            subprocess.run(["git", "-C", wt, "reset", "-q", "--hard", "HEAD"])
            return prop, commit, "revert-conflicts", what[:80]
        t0 = time.time()
        p = subprocess.run([os.path.join(ROOT, "check"), prop], env=dict(os.environ, VERIF_REPO=wt), stdout=subprocess.PIPE, stderr=subprocess.STDOUT, text=True)
        sig = re.search(r"sig=(\S+)", p.stdout)
        res = {0: "NOT-DETECTED", 1: "detected", 2: "inconclusive"}.get(p.returncode, "rc%d" % p.returncode)
        return prop, commit, res, (sig.group(1) if sig else "") + " (%.0fs)" % (time.time() - t0)
    finally:
        q.put(s)
results = []
with concurrent.futures.ThreadPoolExecutor(J) as ex:
    for r in ex.map(run, items):
        results.append(r)
        print("%-16s %s %s %s" % (r[2], r[0], r[1], r[3]), flush=True)
for s in range(J):
    wt = "/tmp/wt_revert_%d_%d" % (os.getpid(), s)
    if os.path.isdir(wt):
        subprocess.run(["git", "-C", "/repo", "worktree", "remove", "--force", wt])
json.dump([{"property": r[0], "commit": r[1], "result": r[2], "detail": r[3]} for r in results], open(os.path.join(ROOT, "reverttest_results.json"), "w"), indent=1)
print("detected %d / %d" % (sum(r[2] == "detected" for r in results), len(results)))
