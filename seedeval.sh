#!/bin/bash
# usage: [SEED_ROUND=2] ./seedeval.sh Cnn  — confirms a seeded change independently in a fresh scratch worktree and runs our check against it.
# 1 patch applies + builds; 2 demo passes without the change; 3 demo fails with it; 4 ./check Cnn with VERIF_REPO
P=$1; R=${SEED_ROUND:-}; SO=/tmp/seed${R}_out/$P; SW=/tmp/seed${R}_$P; WT=/tmp/sv${R}_$P
export GOFLAGS=-mod=mod GOPROXY=off GOSUMDB=off GOTOOLCHAIN=local
[ -f $SO/patch.diff ] || { echo "no patch"; exit 2; }
git -C /repo worktree remove --force $WT 2>/dev/null
git -C /repo worktree add -q --detach $WT HEAD || exit 2
DEMO_CMD=$(grep -h '^DEMO_CMD:' $SO/RUN.txt | tail -1 | sed 's/^DEMO_CMD: *//')
DEMO_FILE=$(grep -h '^DEMO_FILE:' $SO/RUN.txt | tail -1 | sed 's/^DEMO_FILE: *//')
[ -n "$2" ] && DEMO_FILE=$2
[ -n "$3" ] && DEMO_CMD=$3
if [ -z "$DEMO_FILE" ]; then DEMO_FILE=$(git -C $SW status --porcelain | grep '^??' | awk '{print $2}' | grep '_test.go$' | head -1); fi
echo "demo file: $DEMO_FILE ; demo cmd: $DEMO_CMD"
mkdir -p $WT/$(dirname $DEMO_FILE); cp $SW/$DEMO_FILE $WT/$DEMO_FILE || exit 2
( cd $WT && git apply --check $SO/patch.diff ) || { echo "PATCH DOES NOT APPLY"; exit 2; }
echo "--- demo WITHOUT change"; ( cd $WT && eval "$DEMO_CMD" 2>&1 | tail -3 ); 
( cd $WT && git apply $SO/patch.diff && go build ./... ) || { echo "BUILD FAILS"; exit 2; }
echo "--- demo WITH change"; ( cd $WT && eval "$DEMO_CMD" 2>&1 | grep -E "^(--- FAIL|FAIL|ok|PASS|panic)" | head -5 )
rm -f $WT/$DEMO_FILE
echo "--- our check"; cd /verif && VERIF_REPO=$WT ./check $P 2>&1 | grep -E "VERIF-VIOLATION|^VIOLATION|^OK|INCONCLUSIVE|BUILD-FAILED|STARVED" | cut -c1-400
