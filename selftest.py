#!/usr/bin/env python3
"""Sensitivity self-test: applies each /verif/mutants/Cnn-*.diff (and /verif/seeded/*/patch.diff) to a scratch worktree of /repo and
requires the matching check to exit 1 (VIOLATION) in the quick tier (or thorough with --thorough). Never touches /repo's tree.
usage: ./selftest.py [-j N] [--thorough] [--only Cnn] [--seeded]   -> writes selftest_results.json"""
import glob, json, os, re, subprocess, sys, concurrent.futures, shutil, time
ROOT = os.path.dirname(os.path.abspath(__file__))
args = sys.argv[1:]
J = int(args[args.index("-j") + 1]) if "-j" in args else 4
TIER = "thorough" if "--thorough" in args else "quick"
ONLY = args[args.index("--only") + 1] if "--only" in args else None
items = []
if "--seeded" in args:
    for d in sorted(glob.glob(os.path.join(ROOT, "seeded", "*"))):
        m = json.load(open(os.path.join(d, "meta.json")))
        items.append((m["property"], os.path.join(d, "patch.diff"), "seeded/" + os.path.basename(d)))
else:
    for f in sorted(glob.glob(os.path.join(ROOT, "mutants", "C*.diff"))):
        items.append((os.path.basename(f)[:3], f, os.path.basename(f)))
if ONLY:
    items = [i for i in items if i[0] == ONLY]

def run(slot_item):
    slot, (prop, diff, name) = slot_item
    wt = "/tmp/wt_selftest_%d_%d" % (os.getpid(), slot)
    if not os.path.isdir(wt):
        subprocess.run(["git", "-C", "/repo", "worktree", "add", "-q", "--detach", wt, "HEAD"], check=True)
    subprocess.run(["git", "-C", wt, "checkout", "-q", "--", "."], check=True)
    subprocess.run(["git", "-C", wt, "clean", "-fdq"], check=True)
    a = subprocess.run(["git", "-C", wt, "apply", diff], stdout=subprocess.PIPE, stderr=subprocess.STDOUT, text=True)
    if a.returncode != 0:
        return name, prop, "does-not-apply", a.stdout.strip()[:200]
    e = dict(os.environ, VERIF_REPO=wt)
    t0 = time.time()
    p = subprocess.run([os.path.join(ROOT, "check"), prop, "--tier", TIER], env=e, stdout=subprocess.PIPE, stderr=subprocess.STDOUT, text=True)
    line = [l for l in p.stdout.splitlines() if "VERIF-VIOLATION" in l or l.startswith("VIOLATION") or "BUILD-FAILED" in l or l.startswith("OK ") or "INCONCLUSIVE" in l]
    res = {0: "SURVIVED", 1: "killed", 2: "inconclusive"}.get(p.returncode, "rc%d" % p.returncode)
    return name, prop, res, (" | ".join(line))[:300] + " (%.0fs)" % (time.time() - t0)

results = []
slots = list(range(J))
with concurrent.futures.ThreadPoolExecutor(J) as ex:
    import queue
    q = queue.Queue()
    for s in slots: q.put(s)
    def task(it):
        s = q.get()
        try:
            return run((s, it))
        finally:
            q.put(s)
    for r in ex.map(task, items):
        results.append(r)
        print("%-12s %-55s %s" % (r[2], r[0], r[3][:160]), flush=True)
for s in slots:
    wt = "/tmp/wt_selftest_%d_%d" % (os.getpid(), s)
    if os.path.isdir(wt):
        subprocess.run(["git", "-C", "/repo", "worktree", "remove", "--force", wt])
outp = os.path.join(ROOT, "selftest_results%s.json" % ("_seeded" if "--seeded" in args else ""))
merged = {}
if os.path.exists(outp):
    merged = {r["mutant"]: r for r in json.load(open(outp))}
for r in results:
    merged[r[0]] = {"mutant": r[0], "property": r[1], "result": r[2], "detail": r[3]}
json.dump(sorted(merged.values(), key=lambda r: r["mutant"]), open(outp, "w"), indent=1)
print("killed %d / %d" % (sum(1 for r in results if r[2] == "killed"), len(results)))
