#!/bin/bash
# Builds every harness test binary once (warms the Go build cache); offline.
set -e
cd "$(dirname "$0")/harness"
export GOFLAGS=-mod=mod GOPROXY=off GOSUMDB=off GOTOOLCHAIN=local
mkdir -p ../.bin ../evidence ../replays
for p in p_*; do
  [ -d "$p" ] || continue
  go test -c -vet=off -tags "test verif" -o ../.bin/$p.test ./$p
done
echo setup ok
